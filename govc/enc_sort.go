package main

// Library model of slices.SortFunc / slices.SortStableFunc (trusted):
//
//   * only the elements x[0:len(x)] change;
//   * the new contents are a permutation of the old ones: there is an injective sigma on [0,len) with
//     x'[i] == x[sigma(i)];
//   * every earlier element is ordered before every later one: cmp(x'[i], x'[j]) <= 0 for i < j. (This is what
//     sorting gives for a comparator that is a strict weak ordering, which slices.SortFunc requires; that the
//     comparator is one is an assumption - it holds whenever its contract says "compare by an integer key".
//     The pairwise form, with multi-patterns over reads of both elements, creates no new terms when
//     instantiated; the adjacent form x'[i] <= x'[i+1] is a matching loop.)
//
// The comparator is not executed: it must be a function literal without captured variables that has a
// `pure` contract; its ensures clauses are instantiated for the pair (x'[i], x'[j]) under the quantifier,
// with the comparator's result named by a fresh function of (i, j). The comparator's own body is verified
// against that contract like any other function.

import (
	"fmt"
	"go/types"
	"strings"

	"golang.org/x/tools/go/ssa"
)

func (e *Encoder) sortFuncModel(cm *ssa.CallCommon, args []Val, st *State, pc string) bool {
	c := e.c
	if len(args) != 2 || len(cm.Args) != 2 {
		return false
	}
	sl, ok := args[0].T.Underlying().(*types.Slice)
	if !ok {
		return false
	}
	var fn *ssa.Function
	switch v := cm.Args[1].(type) {
	case *ssa.MakeClosure:
		if len(v.Bindings) > 0 {
			return false
		}
		fn, _ = v.Fn.(*ssa.Function)
	case *ssa.Function:
		fn = v
	}
	if fn == nil || len(fn.Params) != 2 {
		return false
	}
	fc := e.prog.contractFor(fn)
	if fc == nil || !fc.Pure || len(fc.Ensures) == 0 || len(fc.ResultNames) != 1 {
		return false
	}
	intT := types.Typ[types.Int]
	s, elem := args[0], sl.Elem()
	pre := st.clone()
	if err := e.havocElems(st, s, elem); err != nil {
		return false
	}
	// all quantifiers range over the ABSOLUTE index J into the backing array (off <= J < off+len) so that the
	// element terms contain no arithmetic and can serve as E-matching patterns
	off := fmt.Sprintf("(soff %s)", s.S)
	end := c.binopIdx("+", off, fmt.Sprintf("(slen %s)", s.S))
	loc := func(j string) string { return fmt.Sprintf("(lelem (sbase %s) %s)", s.S, j) }
	// (loads under a quantifier: no well-typedness side assumptions, they would mention the bound variable)
	at := func(state *State, j string) Val {
		lenv := &Env{c: c, pkg: e.pkg, vars: map[string]Val{}, mem: state.memFn(c), freshBase: "ctr0", wt: func(Val) {}}
		return lenv.load(loc(j), elem)
	}
	// patterns: reads of the element (of each of its leaf fields) in the given state. They mention that state's
	// memory, so a term about the OLD contents never re-triggers a fact about the NEW ones (no matching loop).
	patTerms := func(state *State, j string) []string {
		if scalarElem(elem) {
			return []string{at(state, j).S}
		}
		sls, ok := structLeaves(c, elem)
		if !ok {
			return []string{loc(j)}
		}
		lenv := &Env{c: c, pkg: e.pkg, vars: map[string]Val{}, mem: state.memFn(c), freshBase: "ctr0", wt: func(Val) {}}
		var out []string
		for _, l := range sls {
			q := loc(j)
			for _, f := range l.path {
				q = fmt.Sprintf("(lfield %s %d)", q, f)
			}
			out = append(out, lenv.load(q, l.t).S)
		}
		return out
	}
	pat := func(state *State, j string) string {
		out := ""
		for _, t := range patTerms(state, j) {
			out += fmt.Sprintf(" :pattern (%s)", t)
		}
		return out
	}
	inRange := func(j string) string {
		return and(c.cmp("<=", intT, off, j), c.cmp("<", intT, j, end))
	}
	// permutation: sigma maps an absolute index J of the new contents to the RELATIVE index of the old element
	// it holds (old element terms then have the shape x[off + t], which is what contract quantifiers match on)
	sig := c.fresh("sortperm")
	c.declareFun(sig, []string{c.idx()}, c.idx())
	si := fmt.Sprintf("(%s j!p)", sig)
	relRange := func(i string) string {
		return and(c.cmp("<=", intT, c.idxLit(0), i), c.cmp("<", intT, i, fmt.Sprintf("(slen %s)", s.S)))
	}
	newJ, oldSJ := at(st, "j!p"), at(pre, c.binopIdx("+", off, si))
	c.assume(implies(pc, fmt.Sprintf("(forall ((j!p %s)) (! (=> %s (and %s (= %s %s))) %s :pattern (%s)))", c.idx(), inRange("j!p"), relRange(si), newJ.S, oldSJ.S, pat(st, "j!p"), si)))
	c.assume(implies(pc, fmt.Sprintf("(forall ((j!p %s) (k!p %s)) (! (=> (and %s %s (= %s (%s k!p))) (= j!p k!p)) :pattern (%s (%s k!p))))", c.idx(), c.idx(), inRange("j!p"), inRange("k!p"), si, sig, si, sig)))
	// order: the comparator's contract for adjacent elements
	resT := fn.Signature.Results().At(0).Type()
	cmpf := c.fresh("sortcmp")
	c.declareFun(cmpf, []string{c.idx(), c.idx()}, c.sortOf(resT))
	ri := fmt.Sprintf("(%s j!p k!p)", cmpf)
	env := &Env{c: c, pkg: fnTypesPkg(fn), vars: map[string]Val{}, mem: st.memFn(c), freshBase: st.ctr, wt: func(Val) {}}
	env.old = env
	names := paramNames(fn, fc)
	// (two bound variables with k = j+1 and a multi-pattern over reads of BOTH elements: instantiation needs
	// both terms to exist already, so it never creates the next element and cannot run away)
	nxt := "k!p"
	a, b := at(st, "j!p"), at(st, nxt)
	for i, par := range fn.Params {
		v := a
		if i == 1 {
			v = b
		}
		env.vars[par.Name()] = v
		if i < len(names) && names[i] != "" && names[i] != "_" {
			env.vars[names[i]] = v
		}
	}
	env.vars[fc.ResultNames[0]] = Val{T: resT, S: ri}
	var cls []string
	for _, en := range fc.Ensures {
		f, err := env.ElabBool(en.E)
		if err != nil {
			e.errs = append(e.errs, fmt.Sprintf("sort comparator %s ensures %q: %v", fn.Name(), en.Text, err))
			return false
		}
		cls = append(cls, f)
	}
	cls = append(cls, c.cmp("<=", resT, ri, c.lit(resT, bigZero)))
	both := and(inRange("j!p"), inRange(nxt), c.cmp("<", intT, "j!p", "k!p"))
	pats := ""
	for _, pj := range patTerms(st, "j!p") {
		for _, pk := range patTerms(st, "k!p") {
			pats += fmt.Sprintf(" :pattern (%s %s)", pj, pk)
		}
	}
	c.assume(implies(pc, fmt.Sprintf("(forall ((j!p %s) (k!p %s)) (! (=> %s %s) %s :pattern (%s)))", c.idx(), c.idx(), both, and(cls...), pats, ri)))
	// make the trigger available for every index the program looks at: cmp is total
	e.usedStdlib["slices.SortFunc (model: frame, permutation, adjacent order by the comparator's contract)"] = true
	return true
}

// smallTerm: the term is syntactically a slice length/capacity/offset (in [0, 2^40) by slice well-formedness)
// or an integer literal of magnitude below 2^40.
func smallTerm(x string) bool {
	if strings.HasPrefix(x, "(slen ") || strings.HasPrefix(x, "(scap ") || strings.HasPrefix(x, "(soff ") {
		return true
	}
	if v, ok := constOf(x); ok {
		return v.CmpAbs(pow2(40)) < 0
	}
	return false
}
