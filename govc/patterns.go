package main

import (
	"strings"
	"sync"
)

// connectiveMacros: names of spec functions whose define-fun body contains a connective, ite or binder (see
// compileSpec); applications of these are never chosen as triggers.
var connectiveMacros sync.Map

// quantPatterns chooses E-matching triggers for a universally quantified range variable: the
// innermost memory reads (select / str_at / spec applications) that mention the variable and contain
// no if-then-else, let, or nested binder. Without triggers the solvers fall back to model-based
// instantiation, which does not terminate on index arithmetic.
func quantPatterns(body, v string) []string {
	toks := sexpTokens(body)
	pos := 0
	tree := parseSexp(toks, &pos)
	seen := map[string]bool{}
	var out []string
	var walk func(n any, bound map[string]bool) (contains bool)
	mentions := func(n any) bool { return strings.Contains(" "+sexpString(n)+" ", v) }
	clean := func(s string) bool {
		for _, bad := range []string{"(ite ", "(let ", "(forall ", "(exists ", "(=> ", "(and ", "(or ", "(not "} {
			if strings.Contains(s, bad) {
				return false
			}
		}
		return true
	}
	walk = func(n any, bound map[string]bool) bool {
		lst, ok := n.([]any)
		if !ok {
			s, _ := n.(string)
			return s == v
		}
		if len(lst) == 0 {
			return false
		}
		head, _ := lst[0].(string)
		if head == "forall" || head == "exists" {
			// do not descend: terms there may mention inner bound variables
			nb := map[string]bool{}
			for k := range bound {
				nb[k] = true
			}
			if bl, ok := lst[1].([]any); ok {
				for _, b := range bl {
					if bb, ok := b.([]any); ok && len(bb) > 0 {
						if name, ok := bb[0].(string); ok {
							nb[name] = true
						}
					}
				}
			}
			any := false
			for _, c := range lst[2:] {
				if walk(c, nb) {
					any = true
				}
			}
			return any
		}
		childHas := false
		innerPicked := false
		before := len(out)
		for _, c := range lst[1:] {
			if walk(c, bound) {
				childHas = true
			}
		}
		if len(out) > before {
			innerPicked = true
		}
		if !childHas {
			return false
		}
		if innerPicked {
			return true
		}
		if _, macro := connectiveMacros.Load(head); macro {
			// a spec function defined (define-fun) as a formula with connectives: the solvers expand it, and
			// a connective may not occur in a pattern
			return true
		}
		if head == "select" || head == "str_at" || (head != "" && !isSMTBuiltin(head)) {
			s := sexpString(n)
			if clean(s) && mentions(n) && !mentionsAny(s, bound) && !seen[s] {
				seen[s] = true
				out = append(out, s)
			}
		}
		return true
	}
	walk(tree, map[string]bool{})
	if len(out) > 6 {
		out = out[:6]
	}
	return out
}

func mentionsAny(s string, bound map[string]bool) bool {
	for b := range bound {
		if strings.Contains(s, b+" ") || strings.Contains(s, b+")") {
			return true
		}
	}
	return false
}

func isSMTBuiltin(h string) bool {
	switch h {
	case "+", "-", "*", "div", "mod", "abs", "=", "<", "<=", ">", ">=", "and", "or", "not", "=>", "ite", "let", "distinct",
		"store", "lelem", "lfield", "lroot", "mkslice", "sbase", "soff", "slen", "scap", "ebase", "eidx", "fbase", "fid", "rid",
		"bvadd", "bvsub", "bvmul", "bvand", "bvor", "bvxor", "bvnot", "bvneg", "bvshl", "bvlshr", "bvashr", "bvult", "bvule", "bvugt", "bvuge",
		"bvslt", "bvsle", "bvsgt", "bvsge", "bvudiv", "bvurem", "bvsdiv", "bvsrem", "concat", "_", "as", "!", "rootof", "iface_type":
		return true
	}
	return strings.HasPrefix(h, "(")
}
