package main

import (
	"fmt"
	"go/token"
	"go/types"
	"math/big"
	"sort"
	"strings"

	"golang.org/x/tools/go/ssa"
)

// Verify encodes fn against its contract and returns the obligations.
// modesOf lists the arithmetic modes a contract is verified in (first = primary: owns nopanic and frame).
func modesOf(fc *FuncContract) []Mode {
	var ms []Mode
	if fc != nil {
		for _, f := range strings.Fields(fc.Mode) {
			switch f {
			case "bv":
				ms = append(ms, ModeBV)
			case "int":
				ms = append(ms, ModeInt)
			}
		}
	}
	if len(ms) == 0 {
		ms = []Mode{ModeInt}
	}
	return ms
}

// clauseInMode: a clause tagged [bv] or [int] is only checked in that mode.
func (e *Encoder) clauseInMode(c Clause) bool {
	switch c.Tag {
	case "bv":
		return e.mode == ModeBV
	case "int":
		return e.mode == ModeInt
	}
	return true
}

// Verify encodes fn. seed (may be nil) pre-registers the memory maps a previous pass discovered, so
// that havoc-with-frame operations emitted early already cover maps first touched later.
func (p *Program) Verify(fn *ssa.Function, fc *FuncContract, mode Mode, primary, dual bool, seed map[string]string, ordSeed map[string][]ssa.Instruction) (enc *Encoder) {
	e := &Encoder{prog: p, fn: fn, fc: fc, mode: mode, primary: primary, dual: dual, c: NewCtx(mode, p.specs), vals: map[ssa.Value]Val{},
		pcs: map[*ssa.BasicBlock]string{}, exit: map[*ssa.BasicBlock]*State{}, counts: map[string]int{},
		labels: map[string]*Env{}, ghost: map[string]Val{}, pkg: fnTypesPkg(fn),
		siteCounts: map[string]int{}, siteHit: map[string]bool{}, closures: map[string]*ssa.MakeClosure{}, arrSlices: map[string]arrSlice{},
		ranges: map[*ssa.Range]rangeIter{}, usedContracts: map[string]bool{}, usedStdlib: map[string]bool{},
		ordLog: map[string][]ssa.Instruction{}, ordSeed: ordSeed}
	defer func() {
		if r := recover(); r != nil {
			if ee, ok := r.(elabErr); ok {
				e.errs = append(e.errs, "internal: "+ee.msg)
				enc = e
				return
			}
			panic(r)
		}
	}()
	c := e.c
	for k, v := range seed {
		c.memSorts[k] = v
	}
	if fc != nil && fc.AbstractMul {
		c.abstractMul = true
	}
	if fc != nil && fc.MemConst {
		c.memAsConst = true
	}
	e.analyzeCFG()
	st := &State{mem: map[string]string{}, epoch: "0"}
	c.declare("ctr0", "Int")
	c.assume("(>= ctr0 0)")
	st.ctr = "ctr0"
	// thread-local contributions to monitor counters: 0 at entry unless the contract says otherwise (`token`)
	if fc != nil {
		for _, mr := range p.monitors {
			if !sharesProp(fc.Props, mr.m.Props) {
				continue
			}
			for _, n := range mr.m.Counters {
				e.setToken(st, n, c.lit(types.Typ[types.Uint64], big.NewInt(int64(fc.Tokens[n]))))
			}
		}
	}
	if fn.Synthetic == "package initializer" && fn.Pkg != nil {
		// the runtime calls a package initialiser once, with its guard variable clear: the body runs
		if g, ok := fn.Pkg.Members["init$guard"].(*ssa.Global); ok {
			gv := e.load(st, e.val(g).S, types.Typ[types.Bool])
			c.assume(not(gv.S))
			c.notes["package initialiser: entered with init$guard clear (it runs exactly once)"] = true
		}
	}
	e.entry = st.clone()
	// parameters
	e.params = map[string]Val{}
	names := paramNames(fn, fc)
	for i, par := range fn.Params {
		n := "p_" + sanitize(par.Name())
		if par.Name() == "" || par.Name() == "_" {
			n = fmt.Sprintf("p_anon%d", i)
		}
		c.declare(n, c.sortOf(par.Type()))
		v := Val{T: par.Type(), S: n}
		e.vals[par] = v
		e.params[par.Name()] = v
		if i < len(names) && names[i] != "" && names[i] != "_" {
			e.params[names[i]] = v
		}
		e.modelVars = append(e.modelVars, ModelVar{Name: par.Name(), Type: par.Type(), Term: n})
		e.assumeWT(v, "true", st)
	}
	// pointers to different types do not alias (Go's type system, absent unsafe)
	for i, a := range fn.Params {
		pa, ok := a.Type().Underlying().(*types.Pointer)
		if !ok {
			continue
		}
		for _, b := range fn.Params[i+1:] {
			pb, ok := b.Type().Underlying().(*types.Pointer)
			if !ok || types.Identical(pa.Elem(), pb.Elem()) {
				continue
			}
			c.assume(fmt.Sprintf("(or (= %s lnil) (not (= %s %s)))", e.vals[a].S, e.vals[a].S, e.vals[b].S))
		}
	}
	for _, fv := range fn.FreeVars {
		v := e.val(fv)
		e.params[fv.Name()] = v
		// go/ssa captures every variable by reference: a free variable is the address of an Alloc cell of an
		// enclosing function, i.e. a whole object (never a field or an element), and distinct free variables
		// are distinct cells.
		if _, ok := fv.Type().Underlying().(*types.Pointer); ok {
			c.assume(fmt.Sprintf("((_ is lroot) %s)", v.S))
		}
	}
	for i, a := range fn.FreeVars {
		for _, b := range fn.FreeVars[i+1:] {
			c.assume(fmt.Sprintf("(not (= %s %s))", e.val(a).S, e.val(b).S))
		}
	}
	e.baseEnv = e.envFor(e.entry)
	e.baseEnv.curCtr = e.entry.ctr // allocated(x) in requires: x exists when the function is entered
	for k, v := range e.params {
		e.baseEnv.vars[k] = v
	}
	e.baseEnv.old = e.baseEnv
	if fc != nil {
		for _, g := range fc.Ghosts {
			v, err := e.baseEnv.Elab(g.Init)
			if err != nil {
				e.errs = append(e.errs, fmt.Sprintf("ghost %s: %v", g.Name, err))
				continue
			}
			if t := e.baseEnv.resolveType(g.Type); t != nil && v.T == nil {
				v = e.baseEnv.coerce(v, t)
			}
			e.baseEnv.vars[g.Name] = v
			e.params[g.Name] = v
		}
		for _, r := range fc.Requires {
			s, err := e.baseEnv.ElabBool(r.E)
			if err != nil {
				e.errs = append(e.errs, fmt.Sprintf("requires %q: %v", r.Text, err))
				continue
			}
			c.assume(s)
		}
		for _, r := range fc.Assumes {
			s, err := e.baseEnv.ElabBool(r.E)
			if err != nil {
				e.errs = append(e.errs, fmt.Sprintf("assume %q: %v", r.Text, err))
				continue
			}
			c.assume(s)
		}
		// `uses <lemma>`: a lemma of the same contract set, proved separately (in its own mode), is available here
		// as a fact. (How a bit-level fact proved in bv mode reaches an integer-mode proof.)
		for _, ln := range fc.UsesLemmas {
			var found *lemmaRef
			for _, lr := range p.lemmas {
				if lr.l.Name == ln {
					found = lr
				}
			}
			if found == nil {
				e.errs = append(e.errs, fmt.Sprintf("uses %s: no such lemma", ln))
				continue
			}
			s, err := e.baseEnv.ElabBool(found.l.C.E)
			if err != nil {
				e.errs = append(e.errs, fmt.Sprintf("uses %s: %v", ln, err))
				continue
			}
			c.assume(s)
			c.notes["uses lemma "+ln+" (proved separately)"] = true
		}
		for _, fz := range fc.Frozen {
			func() {
				defer func() {
					if r := recover(); r != nil {
						if ee, ok := r.(elabErr); ok {
							e.errs = append(e.errs, fmt.Sprintf("frozen %s: %v", exprString(fz), ee))
							return
						}
						panic(r)
					}
				}()
				loc, t, ok := e.baseEnv.addr(fz)
				if !ok {
					e.errs = append(e.errs, fmt.Sprintf("frozen %s: not addressable", exprString(fz)))
					return
				}
				e.frozen = append(e.frozen, frozenLoc{loc, t})
			}()
		}
		// entry-time unfolds may mention named results: at entry they hold their zero values
		uenv := e.baseEnv.child()
		uenv.old = e.baseEnv
		for i, rn := range fc.ResultNames {
			if rn != "" && rn != "_" && i < fn.Signature.Results().Len() {
				if _, taken := uenv.vars[rn]; !taken {
					uenv.vars[rn] = e.zero(fn.Signature.Results().At(i).Type())
				}
			}
		}
		for _, u := range fc.Unfolds {
			s, err := uenv.UnfoldSpec(u.E)
			if err != nil {
				e.errs = append(e.errs, fmt.Sprintf("unfold %q: %v", u.Text, err))
				continue
			}
			c.assume(s)
		}
		// vacuity guard: preconditions must be satisfiable
		o := e.addObl("cover-pre", "requires are satisfiable", "true", "false")
		o.IsCover = true
	}
	if len(fn.Blocks) == 0 {
		e.errs = append(e.errs, "function has no body")
		return e
	}
	for _, b := range e.order {
		e.block(b)
	}
	return e
}

func paramNames(fn *ssa.Function, fc *FuncContract) []string {
	if fc == nil {
		return nil
	}
	var names []string
	// (a function literal inside a method is written `func (r T) M$1(...)` in contracts, but has no receiver
	// parameter of its own: the enclosing receiver is a captured variable)
	if fc.Decl.Recv != nil && len(fc.Decl.Recv.List) > 0 && fn.Signature.Recv() != nil {
		if len(fc.Decl.Recv.List[0].Names) > 0 {
			names = append(names, fc.Decl.Recv.List[0].Names[0].Name)
		} else {
			names = append(names, "_")
		}
	}
	names = append(names, fc.ParamNames...)
	return names
}

// envAt builds an environment for contract expressions at the current point.
func (e *Encoder) envAt(st *State, blk *ssa.BasicBlock, phiOverride map[string]Val) *Env {
	env := e.envFor(st)
	for k, v := range e.params {
		env.vars[k] = v
	}
	for k, v := range e.ghost {
		env.vars[k] = v
	}
	env.old = e.baseEnv
	env.localsFirst = true
	env.reached = func(name string) (string, bool) {
		pc, ok := e.reachedPC[name]
		return pc, ok
	}
	env.namedKnown = e.namedKnown
	env.zero = e.zero
	env.curCtr = st.ctr
	env.tok = func(name string) string { return e.token(st, name) }
	env.critMem = func(key, srt string) string {
		if t, ok := st.mem["snap."+key]; ok {
			return t
		}
		return st.get(e.c, key, srt)
	}
	// innermost enclosing loop that ranges over a map: visited(k)
	var best *loopInfo
	for _, li := range e.loops {
		if blk != nil && li.body[blk] && mapRangeOf(li.header) != nil && (best == nil || len(li.body) < len(best.body)) {
			best = li
		}
	}
	if best != nil {
		rg := mapRangeOf(best.header)
		mt := rg.X.Type().Underlying().(*types.Map)
		vk, _, srt := rangeGhostKeys(rg, e.c.sortOf(mt.Key()))
		env.visited = func(k Val) string {
			return fmt.Sprintf("(select %s %s)", st.get(e.c, vk, srt), env.coerce(k, mt.Key()).S)
		}
	}
	env.lookup = func(name string) (Val, bool) {
		if v, ok := phiOverride[name]; ok {
			return v, true
		}
		return e.resolveLocal(name, blk, st)
	}
	return env
}

// resolveLocal finds the value of source variable `name` visible at the start/end of blk.
func (e *Encoder) resolveLocal(name string, blk *ssa.BasicBlock, st *State) (Val, bool) {
	for b := blk; b != nil; b = b.Idom() {
		start := len(b.Instrs) - 1
		if b == blk && b == e.curBlk && e.curInstr != nil {
			// in the block being encoded only what precedes the current instruction is in scope (a later
			// `x = true` would otherwise be read as the value of x at this point)
			for k, ins := range b.Instrs {
				if ins == e.curInstr {
					start = k
					break
				}
			}
		}
		for i := start; i >= 0; i-- {
			switch in := b.Instrs[i].(type) {
			case *ssa.DebugRef:
				if id, ok := in.Expr.(interface{ String() string }); ok && id.String() == name {
					// (go/ssa also emits a debug reference for the field identifier of a selector x.f: that is
					// not a variable called f)
					if fv, isVar := in.Object().(*types.Var); isVar && fv.IsField() {
						continue
					}
					// a captured variable of a closure always denotes the address of its cell (write *x), wherever
					// the contract expression is evaluated: debug references to its loaded value are not used
					if _, isFV := in.X.(*ssa.FreeVar); isFV {
						continue
					}
					if u, isLoad := in.X.(*ssa.UnOp); isLoad {
						if _, isFV := u.X.(*ssa.FreeVar); isFV {
							continue
						}
					}
					if _, done := e.vals[in.X]; !done {
						if _, isConst := in.X.(*ssa.Const); !isConst {
							if _, isPar := in.X.(*ssa.Parameter); !isPar {
								continue
							}
						}
					}
					if in.IsAddr {
						pt, ok := in.X.Type().Underlying().(*types.Pointer)
						if !ok {
							continue
						}
						return e.load(st, e.val(in.X).S, pt.Elem()), true
					}
					return e.val(in.X), true
				}
			case *ssa.Phi:
				if in.Comment == name {
					if v, ok := e.vals[in]; ok {
						return v, true
					}
				}
			case *ssa.Alloc:
				if in.Comment == name {
					if v, ok := e.vals[in]; ok {
						pt := in.Type().Underlying().(*types.Pointer)
						return e.load(st, v.S, pt.Elem()), true
					}
				}
			}
		}
	}
	return Val{}, false
}

func (e *Encoder) block(b *ssa.BasicBlock) {
	c := e.c
	// incoming edges
	type inEdge struct {
		pred *ssa.BasicBlock
		cond string
		st   *State
		idx  int // index of b in pred.Succs
		pi   int // index of pred in b.Preds
	}
	var ins []inEdge
	for pi, p := range b.Preds {
		if e.back[[2]*ssa.BasicBlock{p, b}] {
			continue
		}
		ppc, ok := e.pcs[p]
		if !ok {
			continue // unreachable predecessor
		}
		for si, s := range p.Succs {
			if s == b {
				ec := edgeCond(e, p, b, si)
				ins = append(ins, inEdge{p, and(ppc, ec), e.exit[p], si, pi})
				break
			}
		}
	}
	var st *State
	var pc string
	if b.Index == 0 {
		st = e.entry.clone()
		pc = "true"
	} else {
		if len(ins) == 0 {
			return // unreachable
		}
		var conds []string
		for i := range ins {
			ins[i].cond = c.define("edge", "Bool", ins[i].cond)
			conds = append(conds, ins[i].cond)
		}
		pc = c.define(fmt.Sprintf("pc_b%d", b.Index), "Bool", or(conds...))
		// merge states
		st = ins[0].st.clone()
		if len(ins) > 1 {
			keys := map[string]bool{}
			for _, in := range ins {
				for k := range in.st.mem {
					keys[k] = true
				}
			}
			sameEpoch := true
			for _, in := range ins[1:] {
				if in.st.epoch != ins[0].st.epoch {
					sameEpoch = false
				}
			}
			if !sameEpoch {
				// bring every known key into the merge
				for k := range c.memSorts {
					keys[k] = true
				}
				st.epoch = c.fresh("e")
			}
			var mergeKeys []string
			for k := range keys {
				mergeKeys = append(mergeKeys, k)
			}
			sort.Strings(mergeKeys) // (deterministic script: solver behaviour depends on assertion order)
			for _, k := range mergeKeys {
				srt := c.memSorts[k]
				first := ins[0].st.get(c, k, srt)
				same := true
				for _, in := range ins[1:] {
					if in.st.get(c, k, srt) != first {
						same = false
					}
				}
				if same {
					st.mem[k] = first
					continue
				}
				term := ins[len(ins)-1].st.get(c, k, srt)
				for i := len(ins) - 2; i >= 0; i-- {
					term = fmt.Sprintf("(ite %s %s %s)", ins[i].cond, ins[i].st.get(c, k, srt), term)
				}
				st.mem[k] = c.define("M_"+k, srt, term)
			}
			// ctr
			sameCtr := true
			for _, in := range ins[1:] {
				if in.st.ctr != ins[0].st.ctr {
					sameCtr = false
				}
			}
			if !sameCtr {
				term := ins[len(ins)-1].st.ctr
				for i := len(ins) - 2; i >= 0; i-- {
					term = fmt.Sprintf("(ite %s %s %s)", ins[i].cond, ins[i].st.ctr, term)
				}
				st.ctr = c.define("ctr", "Int", term)
			}
		}
	}
	// phis
	phiEntry := map[*ssa.Phi]Val{}
	for _, in := range b.Instrs {
		phi, ok := in.(*ssa.Phi)
		if !ok {
			break
		}
		if len(ins) == 0 {
			continue
		}
		srt := c.sortOf(phi.Type())
		term := e.val(phi.Edges[ins[len(ins)-1].pi]).S
		for i := len(ins) - 2; i >= 0; i-- {
			term = fmt.Sprintf("(ite %s %s %s)", ins[i].cond, e.val(phi.Edges[ins[i].pi]).S, term)
		}
		var v Val
		if len(ins) == 1 {
			v = Val{T: phi.Type(), S: term}
		} else {
			v = Val{T: phi.Type(), S: c.define("phi", srt, term)}
		}
		phiEntry[phi] = v
		e.vals[phi] = v
	}
	// loop header?
	e.curBlk, e.curPC = b, pc
	if len(e.lockSites) > 0 {
		e.refreshHeld(b, 0)
	}
	if li := e.loops[b]; li != nil {
		e.loopHeader(li, b, st, pc, phiEntry)
	}
	e.pcs[b] = pc
	e.curSt, e.curPC, e.curBlk = st, pc, b
	for _, in := range b.Instrs {
		if _, ok := in.(*ssa.Phi); ok {
			continue
		}
		e.curInstr = in
		e.instr(in, st, pc)
	}
	e.exit[b] = st
	if len(e.lockSites) > 0 {
		e.refreshHeld(b, len(b.Instrs))
	}
	// back edges out of b: invariant preservation
	for si, s := range b.Succs {
		if e.back[[2]*ssa.BasicBlock{b, s}] {
			e.loopBack(e.loops[s], b, si, st, pc)
			if li := e.loops[s]; li != nil && li.spec != nil && len(li.spec.Backs) > 0 {
				env := e.envAt(st, b, nil)
				// entered(j): the header of loop j was reached in the iteration that ends here (the loop body is
				// encoded once, from the havoc'd head: the header's path condition is this iteration's)
				// athead(x): the value the loop variable x had at the head of the iteration that ends here
				env.athead = func(name string) (Val, bool) {
					for phi, v := range li.phiVal {
						if phi.Comment == name {
							return v, true
						}
					}
					return Val{}, false
				}
				env.entered = func(j int) (string, bool) {
					for _, lj := range e.loops {
						if lj != nil && lj.ord == j && li.body[lj.header] {
							if p, ok := e.pcs[lj.header]; ok {
								return p, true
							}
							return "false", true
						}
					}
					return "", false
				}
				epc := and(pc, edgeCond(e, b, s, si))
				for _, bk := range li.spec.Backs {
					if !e.clauseInMode(bk) {
						continue
					}
					f, err := env.ElabBool(bk.E)
					if err != nil {
						e.errs = append(e.errs, fmt.Sprintf("loop %d backedge %q: %v", li.ord, bk.Text, err))
						continue
					}
					kind := fmt.Sprintf("loop-backedge loop %d", li.ord)
					if bk.Tag != "" {
						kind += " " + bk.Tag
					}
					e.addObl(kind, bk.Text, epc, f)
				}
			}
		}
	}
	// edges that leave a loop: its exit assertions
	var exitLoops []*loopInfo
	for _, li := range e.loops {
		if li != nil && li.spec != nil && len(li.spec.Exits) > 0 {
			exitLoops = append(exitLoops, li)
		}
	}
	sort.Slice(exitLoops, func(i, j int) bool { return exitLoops[i].ord < exitLoops[j].ord })
	for si, s := range b.Succs {
		for _, li := range exitLoops {
			inside := func(x *ssa.BasicBlock) bool { return x == li.header || li.body[x] }
			if !inside(b) || inside(s) {
				continue
			}
			env := e.envAt(st, b, nil)
			epc := and(pc, edgeCond(e, b, s, si))
			for _, ex := range li.spec.Exits {
				if !e.clauseInMode(ex) {
					continue
				}
				f, err := env.ElabBool(ex.E)
				if err != nil {
					e.errs = append(e.errs, fmt.Sprintf("loop %d exit %q: %v", li.ord, ex.Text, err))
					continue
				}
				kind := fmt.Sprintf("loop-exit loop %d", li.ord)
				if ex.Tag != "" {
					kind += " " + ex.Tag
				}
				e.addObl(kind, ex.Text, epc, f)
			}
		}
	}
}

func (e *Encoder) loopHeader(li *loopInfo, b *ssa.BasicBlock, st *State, pc string, phiEntry map[*ssa.Phi]Val) {
	c := e.c
	li.preSt = st.clone()
	// inv-init with entry values
	if li.spec != nil {
		env := e.envAt(st, b, nil)
		for _, inv := range li.spec.Invariants {
			if !e.clauseInMode(inv) {
				continue
			}
			s, err := env.ElabBool(inv.E)
			if err != nil {
				e.errs = append(e.errs, fmt.Sprintf("loop %d invariant %q: %v", li.ord, inv.Text, err))
				continue
			}
			e.addObl(fmt.Sprintf("inv-init loop %d", li.ord), inv.Text, pc, s)
		}
	}
	if e.primary {
		for _, rb := range e.rangeBounds(li) {
			e.addObl(fmt.Sprintf("inv-init loop %d range", li.ord), rb.text, pc, rb.at(e.vals[rb.phi].S))
		}
	}
	waits := e.loopWaits(li)
	if waits {
		// the monitor invariants of the held monitors are loop invariants of a loop that waits
		e.monitorLoopObls(li, st, pc, "init")
	}
	// havoc
	spec, handled := e.loopSpecificWrites(li.body)
	keys, all := e.memKeysWritten(li.body, handled)
	if all {
		e.havocKeeping(st, fmt.Sprintf("loop %d body has unknown memory effects", li.ord), li.body)
	} else {
		// cells written at loop-invariant locations: havoc exactly those cells
		var specKeys, wholeKeys []string
		for k := range spec {
			specKeys = append(specKeys, k)
		}
		for k := range keys {
			wholeKeys = append(wholeKeys, k)
		}
		sort.Strings(specKeys)
		sort.Strings(wholeKeys)
		for _, k := range specKeys {
			locs := spec[k]
			if _, whole := keys[k]; whole {
				continue
			}
			for _, l := range locs {
				v := e.freshVal("lc", l.t)
				if w := e.wellTyped(v, ""); w != "true" {
					c.assume(w)
				}
				srt := c.memSort(l.t)
				cur := st.get(c, k, srt)
				st.mem[k] = c.define("M_"+k, srt, fmt.Sprintf("(store %s %s %s)", cur, l.loc, v.S))
			}
		}
		for _, k := range wholeKeys {
			t := keys[k]
			n := c.fresh("M_" + k)
			srt := c.memSort(t)
			if strings.HasPrefix(k, "arr_") {
				srt = c.arrSort(t)
			}
			c.declare(n, srt)
			c.memSorts[k] = srt
			if !e.nonLocalKeys[k] {
				// every store to this map in the loop goes through an object allocated by this function:
				// cells of objects that existed at function entry are unchanged by the loop.
				// (objects allocated inside the loop have roots >= the counter at loop entry; objects
				// allocated by this function before the loop and written in it are excluded by name)
				cur := st.get(c, k, srt)
				cond := fmt.Sprintf("(< (rootof p!f) %s)", li.preSt.ctr)
				for al := range e.loopOuterAllocs {
					if v, ok := e.vals[al]; ok {
						cond = and(cond, fmt.Sprintf("(not (= (rootof p!f) (rootof %s)))", v.S))
					}
				}
				c.assume(fmt.Sprintf("(forall ((p!f Loc)) (! (=> %s (= (select %s p!f) (select %s p!f))) :pattern ((select %s p!f))))", cond, n, cur, n))
			}
			st.mem[k] = n
		}
		// maps updated in the loop: their (domain, value) memories are havoc'd per map type
		var mks []string
		for k := range e.loopMapKeys {
			mks = append(mks, k)
		}
		sort.Strings(mks)
		for _, k := range mks {
			srt := e.loopMapKeys[k]
			n := c.fresh("M_" + k)
			c.declare(n, srt)
			c.memSorts[k] = srt
			st.mem[k] = n
		}
		e.bumpCtr(st)
	}
	for _, in := range b.Instrs {
		phi, ok := in.(*ssa.Phi)
		if !ok {
			break
		}
		v := e.freshVal("loop_"+sanitize(phi.Comment), phi.Type())
		e.vals[phi] = v
		if li.phiVal == nil {
			li.phiVal = map[*ssa.Phi]Val{}
		}
		li.phiVal[phi] = v // (athead(x) at the back edges)
		e.assumeWT(v, pc, st)
	}
	if li.spec != nil {
		env := e.envAt(st, b, nil)
		for _, inv := range li.spec.Invariants {
			s, err := env.ElabBool(inv.E)
			if err != nil {
				continue
			}
			c.assume(implies(pc, s))
		}
	}
	if li.spec != nil {
		env := e.envAt(st, b, nil)
		for _, u := range li.spec.Unfolds {
			s, err := env.UnfoldSpec(u.E)
			if err != nil {
				e.errs = append(e.errs, fmt.Sprintf("loop %d unfold %q: %v", li.ord, u.Text, err))
				continue
			}
			c.assume(implies(pc, s))
		}
	}
	// range-loop index bounds (fixed rule, see rangeBounds); checked at entry and at every back edge
	for _, rb := range e.rangeBounds(li) {
		c.assume(implies(pc, rb.at(e.vals[rb.phi].S)))
	}
	// the head of a loop that waits on a monitored condition variable starts a critical section: it is
	// reached right after Lock (plus the code before the loop) or right after a Wait
	if waits {
		e.monitorLoopAssume(st, pc)
		e.snapshot(st)
	}
}

type rangeBound struct {
	phi  *ssa.Phi
	text string
	at   func(p string) string
}

// rangeBounds recognises the two loop shapes go/ssa emits for `range` over slices/arrays/strings
// (phi #rangeindex = [-1, phi+1], header test phi+1 < len) and over integers (phi #rangeint.iter =
// [0, phi+1], rotated loop guarded by 0 < n, latch test phi+1 < n) and returns the index bounds as
// inductive invariants. They are asserted like user invariants (inv-init / inv-keep), never trusted.
func (e *Encoder) rangeBounds(li *loopInfo) []rangeBound {
	c := e.c
	var out []rangeBound
	for _, in := range li.header.Instrs {
		phi, ok := in.(*ssa.Phi)
		if !ok {
			break
		}
		if !isInt(phi.Type()) {
			continue
		}
		t := phi.Type()
		// counting loop `for i := c; i < L; i++` (header test phi < L, single increment): c <= i
		if iff, ok := li.header.Instrs[len(li.header.Instrs)-1].(*ssa.If); ok && phi.Comment != "rangeindex" && phi.Comment != "rangeint.iter" {
			if cmp, ok := iff.Cond.(*ssa.BinOp); ok && cmp.Op == token.LSS && cmp.X == ssa.Value(phi) && li.body[li.header.Succs[0]] {
				var entry *ssa.Const
				okShape := true
				for pi, pred := range li.header.Preds {
					ev := phi.Edges[pi]
					if e.back[[2]*ssa.BasicBlock{pred, li.header}] {
						add, ok := ev.(*ssa.BinOp)
						if !ok || add.Op != token.ADD || add.X != ssa.Value(phi) {
							okShape = false
							break
						}
						if k, ok := add.Y.(*ssa.Const); !ok || k.Value == nil || k.Int64() != 1 {
							okShape = false
							break
						}
					} else {
						k, ok := ev.(*ssa.Const)
						if !ok || k.Value == nil || (entry != nil && entry.Int64() != k.Int64()) {
							okShape = false
							break
						}
						entry = k
					}
				}
				if okShape && entry != nil {
					lo := c.lit(t, big.NewInt(entry.Int64()))
					out = append(out, rangeBound{phi, fmt.Sprintf("%d <= %s (counting loop)", entry.Int64(), phi.Comment), func(p string) string {
						return c.cmp("<=", t, lo, p)
					}})
					continue
				}
			}
		}
		var limit ssa.Value
		// find `phi+1 < L` in the loop with L defined outside the loop
		for b := range li.body {
			iff, ok := b.Instrs[len(b.Instrs)-1].(*ssa.If)
			if !ok {
				continue
			}
			cmp, ok := iff.Cond.(*ssa.BinOp)
			if !ok || cmp.Op != token.LSS {
				continue
			}
			add, ok := cmp.X.(*ssa.BinOp)
			if !ok || add.Op != token.ADD || add.X != ssa.Value(phi) {
				continue
			}
			if k, ok := add.Y.(*ssa.Const); !ok || k.Int64() != 1 {
				continue
			}
			if d, ok := cmp.Y.(ssa.Instruction); ok && li.body[d.Block()] {
				continue
			}
			limit = cmp.Y
		}
		if limit == nil {
			continue
		}
		lim := e.val(limit).S
		switch phi.Comment {
		case "rangeindex":
			lo := c.lit(t, big.NewInt(-1))
			out = append(out, rangeBound{phi, "-1 <= rangeindex < len", func(p string) string {
				return and(c.cmp("<=", t, lo, p), c.cmp("<", t, p, lim))
			}})
		case "rangeint.iter":
			lo := c.lit(t, big.NewInt(0))
			out = append(out, rangeBound{phi, "0 <= rangeint.iter < n", func(p string) string {
				return and(c.cmp("<=", t, lo, p), c.cmp("<", t, p, lim))
			}})
		}
	}
	return out
}

func (e *Encoder) loopBack(li *loopInfo, from *ssa.BasicBlock, si int, st *State, pc string) {
	h := li.header
	pi := -1
	for i, p := range h.Preds {
		if p == from {
			pi = i
		}
	}
	if e.primary {
		epc := and(pc, edgeCond(e, from, h, si))
		for _, rb := range e.rangeBounds(li) {
			e.addObl(fmt.Sprintf("inv-keep loop %d range", li.ord), rb.text, epc, rb.at(e.val(rb.phi.Edges[pi]).S))
		}
	}
	if e.loopWaits(li) {
		e.monitorLoopObls(li, st, and(pc, edgeCond(e, from, h, si)), "keep")
	}
	if li.spec == nil {
		return
	}
	over := map[string]Val{}
	for _, in := range h.Instrs {
		phi, ok := in.(*ssa.Phi)
		if !ok {
			break
		}
		over[phi.Comment] = e.val(phi.Edges[pi])
	}
	// temporarily rebind header phis to the back-edge values
	saved := map[*ssa.Phi]Val{}
	for _, in := range h.Instrs {
		phi, ok := in.(*ssa.Phi)
		if !ok {
			break
		}
		saved[phi] = e.vals[phi]
		e.vals[phi] = e.val(phi.Edges[pi])
	}
	env := e.envAt(st, h, over)
	epc := and(pc, edgeCond(e, from, h, si))
	for _, inv := range li.spec.Invariants {
		if !e.clauseInMode(inv) {
			continue
		}
		s, err := env.ElabBool(inv.E)
		if err != nil {
			e.errs = append(e.errs, fmt.Sprintf("loop %d invariant %q at back edge: %v", li.ord, inv.Text, err))
			continue
		}
		e.addObl(fmt.Sprintf("inv-keep loop %d", li.ord), inv.Text, epc, s)
	}
	for phi, v := range saved {
		e.vals[phi] = v
	}
}

func (e *Encoder) panicObl(kind, text, pc, safe string) {
	if kind != "nil" && (e.fc == nil || !e.fc.NoPanic) {
		return
	}
	if kind == "nil" {
		// nil dereference is not part of the nopanic obligations (stated in DESIGN.md); execution only
		// continues past a dereference when the pointer is not nil, which is assumed from here on.
		if safe != "true" && !strings.Contains(safe, "new!") {
			e.c.assume(implies(pc, safe))
		}
		return
	}
	if !e.primary {
		return
	}
	e.addObl(kind, text, pc, safe)
}

func (e *Encoder) instr(in ssa.Instruction, st *State, pc string) {
	c := e.c
	intT := types.Typ[types.Int]
	switch in := in.(type) {
	case *ssa.DebugRef:
	case *ssa.Alloc:
		pt := in.Type().Underlying().(*types.Pointer)
		loc := e.alloc(st)
		e.vals[in] = Val{T: in.Type(), S: loc}
		if at, ok := pt.Elem().Underlying().(*types.Array); ok && !scalarElem(at.Elem()) && at.Len() <= 64 {
			// zero each aggregate element directly (no constant-array term: cvc5 wants a value there)
			for i := int64(0); i < at.Len(); i++ {
				e.store(st, fmt.Sprintf("(lelem %s %s)", loc, c.idxLit(i)), at.Elem(), e.zero(at.Elem()).S)
			}
			break
		}
		e.store(st, loc, pt.Elem(), e.zero(pt.Elem()).S)
	case *ssa.BinOp:
		e.vals[in] = e.binop(in, st, pc)
	case *ssa.UnOp:
		x := e.val(in.X)
		switch in.Op {
		case token.MUL: // load
			if g, ok := in.X.(*ssa.Global); ok {
				if s, ok := c.constGlobal(g.Pkg.Pkg.Path() + "." + g.Name()); ok {
					e.vals[in] = Val{T: in.Type(), S: s}
					break
				}
			}
			e.panicObl("nil", "pointer dereference", pc, not(fmt.Sprintf("(= %s lnil)", x.S)))
			v := e.load(st, x.S, in.Type())
			// name large loads to keep terms small
			if len(v.S) > 200 {
				v.S = c.define("ld", c.sortOf(in.Type()), v.S)
			}
			e.vals[in] = v
			e.assumeWT(v, pc, st)
		case token.NOT:
			e.vals[in] = Val{T: in.Type(), S: not(x.S)}
		case token.SUB:
			if isFloat(in.Type()) {
				c.declareFun("fneg", []string{"F64"}, "F64")
				e.vals[in] = Val{T: in.Type(), S: fmt.Sprintf("(fneg %s)", x.S)}
			} else {
				e.vals[in] = Val{T: in.Type(), S: c.neg(in.Type(), x.S)}
			}
		case token.XOR:
			e.vals[in] = Val{T: in.Type(), S: c.bitnot(in.Type(), x.S)}
		case token.ARROW:
			e.havocAll(st, "channel receive")
			v := e.freshVal("recv", in.Type())
			e.vals[in] = v
			e.assumeWT(v, pc, st)
		default:
			e.unsupported(in, st, pc)
		}
	case *ssa.Convert:
		e.vals[in] = e.convert(in, st, pc)
	case *ssa.ChangeType:
		x := e.val(in.X)
		if c.sortOf(x.T) == c.sortOf(in.Type()) {
			e.vals[in] = Val{T: in.Type(), S: x.S}
		} else {
			e.unsupported(in, st, pc)
		}
	case *ssa.ChangeInterface:
		e.vals[in] = Val{T: in.Type(), S: e.val(in.X).S}
	case *ssa.MakeInterface:
		x := e.val(in.X)
		v := e.freshVal("iface", in.Type())
		tid := e.prog.typeID(in.X.Type())
		c.assume(implies(pc, fmt.Sprintf("(= (iface_type %s) %d)", v.S, tid)))
		c.assume(implies(pc, not(fmt.Sprintf("(= %s iface_nil)", v.S))))
		ub := e.unboxFn(in.X.Type())
		if ub != "" {
			c.assume(implies(pc, fmt.Sprintf("(= (%s %s) %s)", ub, v.S, x.S)))
		}
		v.Dyn = in.X.Type()
		e.vals[in] = v
	case *ssa.TypeAssert:
		x := e.val(in.X)
		if _, isIface := in.AssertedType.Underlying().(*types.Interface); isIface {
			v := Val{T: in.AssertedType, S: x.S}
			if in.CommaOk {
				ok := e.freshVal("ok", types.Typ[types.Bool])
				c.assume(implies(pc, fmt.Sprintf("(=> %s (not (= %s iface_nil)))", ok.S, x.S)))
				e.vals[in] = Val{T: in.Type(), Tuple: []Val{{T: in.AssertedType, S: fmt.Sprintf("(ite %s %s iface_nil)", ok.S, x.S)}, ok}}
			} else {
				e.panicObl("typeassert", "type assertion", pc, "false")
				e.vals[in] = v
			}
			break
		}
		tid := e.prog.typeID(in.AssertedType)
		okS := fmt.Sprintf("(and (not (= %s iface_nil)) (= (iface_type %s) %d))", x.S, x.S, tid)
		var v Val
		if ub := e.unboxFn(in.AssertedType); ub != "" {
			v = Val{T: in.AssertedType, S: fmt.Sprintf("(%s %s)", ub, x.S)}
		} else {
			v = e.freshVal("ta", in.AssertedType)
		}
		if in.CommaOk {
			z := e.zero(in.AssertedType)
			e.vals[in] = Val{T: in.Type(), Tuple: []Val{{T: in.AssertedType, S: fmt.Sprintf("(ite %s %s %s)", okS, v.S, z.S)}, {T: types.Typ[types.Bool], S: okS}}}
		} else if cl, ok := in.X.(*ssa.Call); ok && cl.Call.StaticCallee() != nil && cl.Call.StaticCallee().String() == "(*sync.Pool).Get" {
			// pool.Get().(T): pools are type-homogeneous (every Put and the New function supply a T) - assumed,
			// and listed among the assumptions
			c.notes["assumed: a type assertion directly on (*sync.Pool).Get succeeds (pools hold values of one type)"] = true
			c.assume(implies(pc, okS))
			e.vals[in] = v
		} else {
			e.panicObl("typeassert", "type assertion", pc, okS)
			e.vals[in] = v
		}
		e.assumeWT(v, pc, st)
		e.nameValue("$assert", e.vals[in], pc) // $assert<k> or $assert<k>_0 (value), $assert<k>_1 (ok)
	case *ssa.Extract:
		t := e.val(in.Tuple)
		if in.Index < len(t.Tuple) {
			e.vals[in] = t.Tuple[in.Index]
		} else {
			e.unsupported(in, st, pc)
		}
	case *ssa.Field:
		x := e.val(in.X)
		stt := in.X.Type().Underlying().(*types.Struct)
		sn := c.structSort(stt)
		e.vals[in] = Val{T: in.Type(), S: fmt.Sprintf("(%s_f%d %s)", sn, in.Field, x.S)}
	case *ssa.FieldAddr:
		x := e.val(in.X)
		e.panicObl("nil", "field address of nil pointer", pc, not(fmt.Sprintf("(= %s lnil)", x.S)))
		e.vals[in] = Val{T: in.Type(), S: c.lfield(x.S, in.X.Type().Underlying().(*types.Pointer).Elem().Underlying().(*types.Struct), in.Field)}
	case *ssa.IndexAddr:
		x := e.val(in.X)
		i := c.convert(in.Index.Type(), intT, e.val(in.Index).S)
		switch u := in.X.Type().Underlying().(type) {
		case *types.Slice:
			e.panicObl("bounds", fmt.Sprintf("index %s[%s]", in.X.Name(), in.Index.Name()), pc,
				and(c.cmp("<=", intT, c.idxLit(0), i), c.cmp("<", intT, i, fmt.Sprintf("(slen %s)", x.S))))
			e.vals[in] = Val{T: in.Type(), S: fmt.Sprintf("(lelem (sbase %s) %s)", x.S, c.binopIdx("+", fmt.Sprintf("(soff %s)", x.S), i))}
		case *types.Pointer:
			at := u.Elem().Underlying().(*types.Array)
			e.panicObl("bounds", fmt.Sprintf("index %s[%s]", in.X.Name(), in.Index.Name()), pc,
				and(c.cmp("<=", intT, c.idxLit(0), i), c.cmp("<", intT, i, c.idxLit(at.Len()))))
			e.vals[in] = Val{T: in.Type(), S: fmt.Sprintf("(lelem %s %s)", x.S, i)}
		default:
			e.unsupported(in, st, pc)
		}
	case *ssa.Index:
		x := e.val(in.X)
		i := c.convert(in.Index.Type(), intT, e.val(in.Index).S)
		switch u := in.X.Type().Underlying().(type) {
		case *types.Array:
			e.panicObl("bounds", "array index", pc, and(c.cmp("<=", intT, c.idxLit(0), i), c.cmp("<", intT, i, c.idxLit(u.Len()))))
			e.vals[in] = Val{T: in.Type(), S: fmt.Sprintf("(select %s %s)", x.S, i)}
		case *types.Basic: // constant string index
			e.panicObl("bounds", "string index", pc, and(c.cmp("<=", intT, c.idxLit(0), i), c.cmp("<", intT, i, fmt.Sprintf("(str_len %s)", x.S))))
			e.vals[in] = Val{T: in.Type(), S: fmt.Sprintf("(str_at %s %s)", x.S, i)}
		default:
			e.unsupported(in, st, pc)
		}
	case *ssa.Lookup:
		x := e.val(in.X)
		if isString(in.X.Type()) {
			i := c.convert(in.Index.Type(), intT, e.val(in.Index).S)
			e.panicObl("bounds", "string index", pc, and(c.cmp("<=", intT, c.idxLit(0), i), c.cmp("<", intT, i, fmt.Sprintf("(str_len %s)", x.S))))
			e.vals[in] = Val{T: in.Type(), S: fmt.Sprintf("(str_at %s %s)", x.S, i)}
			break
		}
		mt := in.X.Type().Underlying().(*types.Map)
		env := e.envFor(st)
		k := e.val(in.Index)
		has := env.mapHas(x, mt, k.S)
		got := env.mapGet(x, mt, k.S)
		z := e.zero(mt.Elem())
		v := Val{T: mt.Elem(), S: fmt.Sprintf("(ite %s %s %s)", has, got.S, z.S)}
		if in.CommaOk {
			e.vals[in] = Val{T: in.Type(), Tuple: []Val{v, {T: types.Typ[types.Bool], S: has}}}
		} else {
			e.vals[in] = v
		}
		e.assumeWT(got, and(pc, has), st)
	case *ssa.Slice:
		e.slice(in, st, pc)
	case *ssa.Store:
		a := e.val(in.Addr)
		e.panicObl("nil", "store through nil pointer", pc, not(fmt.Sprintf("(= %s lnil)", a.S)))
		var prev *Val
		if e.fc != nil && len(e.fc.Sites) > 0 {
			if _, isField := in.Addr.(*ssa.FieldAddr); isField && scalarElem(in.Val.Type()) {
				p := e.load(st, a.S, in.Val.Type()) // `prev` in site assertions: the value being overwritten
				prev = &p
			}
		}
		e.store(st, a.S, in.Val.Type(), e.val(in.Val).S)
		e.siteStore(in, st, pc, prev)
	case *ssa.MakeSlice:
		l := c.convert(in.Len.Type(), intT, e.val(in.Len).S)
		k := c.convert(in.Cap.Type(), intT, e.val(in.Cap).S)
		e.panicObl("make", "make([]T, len, cap) size", pc, e.makeSafe(in.Type().Underlying().(*types.Slice).Elem(), l, k))
		if e.fc != nil && e.fc.AllocBound && e.primary {
			// decoders: an allocation is bounded by the number of input bytes still unread
			if rd, ok := e.readerSrcLen(st); ok {
				e.addObl("alloc-bound", "make length <= bytes remaining in the reader", pc, c.cmp("<=", intT, k, rd))
			} else {
				e.errs = append(e.errs, "allocbound: no kbin.Reader found in this function")
			}
		}
		loc := e.alloc(st)
		v := Val{T: in.Type(), S: fmt.Sprintf("(mkslice %s %s %s %s)", loc, c.idxLit(0), l, k)}
		e.vals[in] = v
		e.zeroFill(st, pc, v)
	case *ssa.MakeMap:
		e.makeMap(in, st, pc)
	case *ssa.MapUpdate:
		e.mapUpdate(in, st, pc)
	case *ssa.MakeChan:
		e.vals[in] = e.freshVal("chan", in.Type())
	case *ssa.MakeClosure:
		v := e.freshVal("closure", in.Type())
		e.vals[in] = v
		e.closures[v.S] = in
	case *ssa.Call:
		e.call(in, st, pc)
	case *ssa.Defer:
		e.defers = append(e.defers, in)
	case *ssa.RunDefers:
		for i := len(e.defers) - 1; i >= 0; i-- {
			d := e.defers[i]
			if !d.Block().Dominates(in.Block()) {
				e.havocAll(st, "conditional defer")
				continue
			}
			e.callCommon(d, d.Common(), nil, st, pc)
		}
	case *ssa.Go:
		if len(e.held) > 0 {
			// a goroutine started inside a critical section runs concurrently like any other thread: it cannot
			// touch the state protected by the mutexes this thread holds (lockset audit), and the thread's own
			// ghost contributions are its own. Everything else is havoc.
			e.goUnderLock(st, pc)
			break
		}
		e.havocAll(st, "go statement")
	case *ssa.Send:
		e.havocAll(st, "channel send")
	case *ssa.Select:
		if e.fc != nil && len(e.fc.Sites) > 0 {
			// site select#k: the k-th select statement in source order; waitson(ch) says that one of its cases
			// receives from (or sends on) the channel ch
			extra := map[string]Val{}
			for i, s := range in.States {
				extra[fmt.Sprintf("chan%d", i)] = e.val(s.Chan)
			}
			e.runSites(fmt.Sprintf("select#%d", e.ordinal("site select")), st, pc, extra)
		}
		e.havocAll(st, "select")
		v := e.freshVal("sel", in.Type())
		e.vals[in] = v
		e.assumeWT(v, pc, st)
	case *ssa.Range:
		e.rangeInit(in, st, pc)
	case *ssa.Next:
		e.rangeNext(in, st, pc)
	case *ssa.If, *ssa.Jump:
	case *ssa.Return:
		if e.fc != nil && len(e.fc.Sites) > 0 {
			// site return#k: the k-th return statement in source order; its results are res0, res1, ...
			extra := map[string]Val{}
			for i, r := range in.Results {
				extra[fmt.Sprintf("res%d", i)] = e.val(r)
			}
			e.runSites(fmt.Sprintf("return#%d", e.ordinal("site return")), st, pc, extra)
		}
		e.ret(in, st, pc)
	case *ssa.Panic:
		e.panicObl("panic", "explicit panic", pc, "false")
	case *ssa.SliceToArrayPointer:
		e.unsupported(in, st, pc)
	default:
		e.unsupported(in, st, pc)
	}
}

// readerSrcLen: len(b.Src) of the function's kbin.Reader (a local of that type or a *Reader parameter).
func (e *Encoder) readerSrcLen(st *State) (string, bool) {
	isReader := func(t types.Type) (*types.Struct, bool) {
		n, ok := t.(*types.Named)
		if !ok || n.Obj().Name() != "Reader" || n.Obj().Pkg() == nil || !strings.HasSuffix(n.Obj().Pkg().Path(), "kbin") {
			return nil, false
		}
		s, ok := n.Underlying().(*types.Struct)
		return s, ok
	}
	// every reader of the function (generated decoders open a nested reader per tagged field, whose
	// bytes are a span of the outer reader's): the bound is the largest of their unread lengths
	var locs []string
	var rs *types.Struct
	for _, p := range e.fn.Params {
		if pt, ok := p.Type().Underlying().(*types.Pointer); ok {
			if s, ok := isReader(pt.Elem()); ok {
				locs, rs = append(locs, e.val(p).S), s
			}
		}
	}
	for _, b := range e.fn.Blocks {
		for _, in := range b.Instrs {
			if al, ok := in.(*ssa.Alloc); ok {
				if s, ok := isReader(al.Type().Underlying().(*types.Pointer).Elem()); ok {
					if v, has := e.vals[al]; has {
						locs, rs = append(locs, v.S), s
					}
				}
			}
		}
	}
	if rs == nil {
		return "", false
	}
	src := -1
	for i := 0; i < rs.NumFields(); i++ {
		if rs.Field(i).Name() == "Src" {
			src = i
		}
	}
	if src < 0 {
		return "", false
	}
	intT := types.Typ[types.Int]
	best := ""
	for _, loc := range locs {
		v := e.load(st, e.c.lfield(loc, rs, src), rs.Field(src).Type())
		l := fmt.Sprintf("(slen %s)", v.S)
		if best == "" {
			best = l
		} else {
			best = fmt.Sprintf("(ite %s %s %s)", e.c.cmp(">=", intT, best, l), best, l)
		}
	}
	return best, true
}

func (e *Encoder) unsupported(in ssa.Instruction, st *State, pc string) {
	e.havocAll(st, fmt.Sprintf("unsupported instruction %T (%s)", in, in.String()))
	if v, ok := in.(ssa.Value); ok {
		x := e.freshVal("unsup", v.Type())
		e.vals[v] = x
		e.assumeWT(x, pc, st)
	}
}

func (e *Encoder) makeSafe(elem types.Type, l, k string) string {
	c := e.c
	intT := types.Typ[types.Int]
	sz := int64(1) // (a type parameter has no size: the element count alone is bounded)
	if _, isTP := elem.(*types.TypeParam); !isTP {
		sz = e.prog.sizes.Sizeof(elem)
	}
	if sz <= 0 {
		sz = 1
	}
	limit := int64(1) << 47 / sz
	return and(c.cmp("<=", intT, c.idxLit(0), l), c.cmp("<=", intT, l, k), c.cmp("<=", intT, k, c.idxLit(limit)))
}

func (e *Encoder) zeroFill(st *State, pc string, s Val) {
	// fresh memory is zero: forall i in [0,cap): M[elem(base,i)] == zero. Only for scalar element types.
	c := e.c
	elem := s.T.Underlying().(*types.Slice).Elem()
	switch elem.Underlying().(type) {
	case *types.Struct, *types.Array:
		return
	}
	key, srt := c.arrKey(elem), c.arrSort(elem)
	m := st.get(c, key, srt)
	z := e.zero(elem)
	st.mem[key] = c.define("M_"+key, srt, fmt.Sprintf("(store %s (sbase %s) ((as const (Array %s %s)) %s))", m, s.S, c.idx(), c.sortOf(elem), z.S))
}

func (e *Encoder) binop(in *ssa.BinOp, st *State, pc string) Val {
	c := e.c
	x, y := e.val(in.X), e.val(in.Y)
	t := in.X.Type()
	boolT := types.Typ[types.Bool]
	switch in.Op {
	case token.EQL, token.NEQ:
		var eq string
		switch {
		case isFloat(t):
			c.declareFun("feq", []string{"F64", "F64"}, "Bool")
			eq = fmt.Sprintf("(feq %s %s)", x.S, y.S)
		default:
			if _, ok := t.Underlying().(*types.Slice); ok {
				// only comparison with nil is legal
				if k, ok := in.Y.(*ssa.Const); ok && k.Value == nil {
					eq = fmt.Sprintf("(= (sbase %s) lnil)", x.S)
				} else {
					eq = fmt.Sprintf("(= (sbase %s) lnil)", y.S)
				}
			} else if isString(t) {
				eq = e.strEq(x.S, y.S)
			} else {
				eq = fmt.Sprintf("(= %s %s)", x.S, y.S)
			}
		}
		if in.Op == token.NEQ {
			eq = not(eq)
		}
		return Val{T: boolT, S: eq}
	case token.LSS, token.LEQ, token.GTR, token.GEQ:
		op := map[token.Token]string{token.LSS: "<", token.LEQ: "<=", token.GTR: ">", token.GEQ: ">="}[in.Op]
		if isInt(t) {
			return Val{T: boolT, S: c.cmp(op, t, x.S, y.S)}
		}
		if isFloat(t) {
			c.declareFun("flt", []string{"F64", "F64"}, "Bool")
			c.declareFun("fle", []string{"F64", "F64"}, "Bool")
			switch op {
			case "<":
				return Val{T: boolT, S: fmt.Sprintf("(flt %s %s)", x.S, y.S)}
			case "<=":
				return Val{T: boolT, S: fmt.Sprintf("(fle %s %s)", x.S, y.S)}
			case ">":
				return Val{T: boolT, S: fmt.Sprintf("(flt %s %s)", y.S, x.S)}
			default:
				return Val{T: boolT, S: fmt.Sprintf("(fle %s %s)", y.S, x.S)}
			}
		}
		if isString(t) {
			c.declareFun("str_lt", []string{"Str", "Str"}, "Bool")
			switch op {
			case "<":
				return Val{T: boolT, S: fmt.Sprintf("(str_lt %s %s)", x.S, y.S)}
			case ">":
				return Val{T: boolT, S: fmt.Sprintf("(str_lt %s %s)", y.S, x.S)}
			case "<=":
				return Val{T: boolT, S: not(fmt.Sprintf("(str_lt %s %s)", y.S, x.S))}
			default:
				return Val{T: boolT, S: not(fmt.Sprintf("(str_lt %s %s)", x.S, y.S))}
			}
		}
	}
	if isBool(t) {
		switch in.Op {
		case token.AND, token.LAND:
			return Val{T: in.Type(), S: and(x.S, y.S)}
		case token.OR, token.LOR:
			return Val{T: in.Type(), S: or(x.S, y.S)}
		}
	}
	if isFloat(t) {
		fn := "f" + sanitize(in.Op.String())
		fn = map[token.Token]string{token.ADD: "fadd", token.SUB: "fsub", token.MUL: "fmul", token.QUO: "fdiv"}[in.Op]
		if fn == "" {
			return e.freshVal("fop", in.Type())
		}
		c.declareFun(fn, []string{"F64", "F64"}, "F64")
		return Val{T: in.Type(), S: fmt.Sprintf("(%s %s %s)", fn, x.S, y.S)}
	}
	if isString(t) && in.Op == token.ADD {
		c.declareFun("str_cat", []string{"Str", "Str"}, "Str")
		r := fmt.Sprintf("(str_cat %s %s)", x.S, y.S)
		c.assume(fmt.Sprintf("(= (str_len %s) %s)", r, c.binopIdx("+", fmt.Sprintf("(str_len %s)", x.S), fmt.Sprintf("(str_len %s)", y.S))))
		return Val{T: in.Type(), S: r}
	}
	if !isInt(t) {
		e.havoc("binop on " + t.String())
		return e.freshVal("bop", in.Type())
	}
	op := in.Op.String()
	switch in.Op {
	case token.QUO, token.REM:
		e.panicObl("div", "division by zero", pc, not(fmt.Sprintf("(= %s %s)", y.S, c.lit(t, bigZero))))
	case token.SHL, token.SHR:
		if _, s, _ := intInfo(in.Y.Type()); s {
			e.panicObl("shift", "negative shift amount", pc, c.cmp(">=", in.Y.Type(), y.S, c.lit(in.Y.Type(), bigZero)))
		}
	}
	s := c.binop(op, t, x.S, y.S, in.Y.Type())
	if len(s) > 160 {
		s = c.define("t", c.sortOf(in.Type()), s)
	}
	return Val{T: in.Type(), S: s}
}

func (e *Encoder) strEq(x, y string) string {
	return fmt.Sprintf("(= %s %s)", x, y)
}

func (e *Encoder) convert(in *ssa.Convert, st *State, pc string) Val {
	c := e.c
	x := e.val(in.X)
	from, to := in.X.Type(), in.Type()
	switch {
	case isInt(from) && isInt(to):
		return Val{T: to, S: c.convert(from, to, x.S)}
	case isString(to) && isByteSlice(from):
		env := e.envFor(st)
		s := env.bytesToStr(x)
		// a declared constant (not a macro) so that it can appear in quantifier patterns
		n := c.fresh("str")
		c.declare(n, "Str")
		c.assume(fmt.Sprintf("(= %s %s)", n, s))
		c.assume(implies(pc, fmt.Sprintf("(= (str_len %s) (slen %s))", n, x.S)))
		// content: str_at(n, i) == x[i]
		m := st.get(c, "arr_u8", c.arrSort(types.Typ[types.Uint8]))
		c.assume(implies(pc, fmt.Sprintf("(forall ((i!s %s)) (! (= (str_at %s i!s) (select (select %s (sbase %s)) %s)) :pattern ((str_at %s i!s))))", c.idx(), n, m, x.S, c.binopIdx("+", fmt.Sprintf("(soff %s)", x.S), "i!s"), n)))
		return Val{T: to, S: n}
	case isByteSlice(to) && isString(from):
		loc := e.alloc(st)
		l := fmt.Sprintf("(str_len %s)", x.S)
		v := Val{T: to, S: c.define("bs", "Slice", fmt.Sprintf("(mkslice %s %s %s %s)", loc, c.idxLit(0), l, l))}
		m := st.get(c, "arr_u8", c.arrSort(types.Typ[types.Uint8]))
		c.assume(implies(pc, fmt.Sprintf("(forall ((i!s %s)) (! (= (select (select %s %s) i!s) (str_at %s i!s)) :pattern ((select (select %s %s) i!s))))", c.idx(), m, loc, x.S, m, loc)))
		// string([]byte(s)) == s
		c.assume(implies(pc, fmt.Sprintf("(= %s %s)", e.envFor(st).bytesToStr(v), x.S)))
		return v
	case isFloat(from) || isFloat(to):
		fn := "fconv_" + sanitize(from.Underlying().String()) + "_" + sanitize(to.Underlying().String())
		c.declareFun(fn, []string{c.sortOf(from)}, c.sortOf(to))
		v := Val{T: to, S: fmt.Sprintf("(%s %s)", fn, x.S)}
		if isInt(to) {
			if r := c.inRange(to, v.S); r != "" {
				c.assume(r)
			}
		}
		return v
	case c.sortOf(from) == c.sortOf(to):
		return Val{T: to, S: x.S}
	}
	e.havoc(fmt.Sprintf("conversion %s -> %s", from, to))
	v := e.freshVal("conv", to)
	e.assumeWT(v, pc, st)
	return v
}

func isByteSlice(t types.Type) bool {
	s, ok := t.Underlying().(*types.Slice)
	if !ok {
		return false
	}
	b, ok := s.Elem().Underlying().(*types.Basic)
	return ok && b.Kind() == types.Uint8
}

func (e *Encoder) slice(in *ssa.Slice, st *State, pc string) {
	c := e.c
	intT := types.Typ[types.Int]
	x := e.val(in.X)
	get := func(v ssa.Value, def string) string {
		if v == nil {
			return def
		}
		return c.convert(v.Type(), intT, e.val(v).S)
	}
	z := c.idxLit(0)
	switch u := in.X.Type().Underlying().(type) {
	case *types.Slice:
		lo := get(in.Low, z)
		hi := get(in.High, fmt.Sprintf("(slen %s)", x.S))
		max := get(in.Max, fmt.Sprintf("(scap %s)", x.S))
		safe := and(c.cmp("<=", intT, z, lo), c.cmp("<=", intT, lo, hi), c.cmp("<=", intT, hi, max), c.cmp("<=", intT, max, fmt.Sprintf("(scap %s)", x.S)))
		e.panicObl("slice", fmt.Sprintf("slice %s[%s:%s]", in.X.Name(), nameOf(in.Low), nameOf(in.High)), pc, safe)
		v := fmt.Sprintf("(mkslice (sbase %s) %s %s %s)", x.S, c.binopIdx("+", fmt.Sprintf("(soff %s)", x.S), lo), c.binopIdx("-", hi, lo), c.binopIdx("-", max, lo))
		e.vals[in] = Val{T: in.Type(), S: c.define("sl", "Slice", v)}
	case *types.Pointer:
		at := u.Elem().Underlying().(*types.Array)
		n := c.idxLit(at.Len())
		lo := get(in.Low, z)
		hi := get(in.High, n)
		max := get(in.Max, n)
		safe := and(c.cmp("<=", intT, z, lo), c.cmp("<=", intT, lo, hi), c.cmp("<=", intT, hi, max), c.cmp("<=", intT, max, n))
		e.panicObl("slice", "slice of array", pc, safe)
		v := fmt.Sprintf("(mkslice %s %s %s %s)", x.S, lo, c.binopIdx("-", hi, lo), c.binopIdx("-", max, lo))
		e.vals[in] = Val{T: in.Type(), S: c.define("sl", "Slice", v)}
		if al, ok := in.X.(*ssa.Alloc); ok && in.Low == nil && in.High == nil {
			e.arrSlices[e.vals[in].S] = arrSlice{al, at}
		}
	case *types.Basic: // string
		lo := get(in.Low, z)
		hi := get(in.High, fmt.Sprintf("(str_len %s)", x.S))
		safe := and(c.cmp("<=", intT, z, lo), c.cmp("<=", intT, lo, hi), c.cmp("<=", intT, hi, fmt.Sprintf("(str_len %s)", x.S)))
		e.panicObl("slice", "substring", pc, safe)
		c.declareFun("str_sub", []string{"Str", c.idx(), c.idx()}, "Str")
		v := c.define("sub", "Str", fmt.Sprintf("(str_sub %s %s %s)", x.S, lo, hi))
		c.assume(implies(pc, fmt.Sprintf("(= (str_len %s) %s)", v, c.binopIdx("-", hi, lo))))
		c.assume(implies(pc, fmt.Sprintf("(forall ((i!s %s)) (= (str_at %s i!s) (str_at %s %s)))", c.idx(), v, x.S, c.binopIdx("+", lo, "i!s"))))
		e.vals[in] = Val{T: in.Type(), S: v}
	default:
		e.unsupported(in, st, pc)
	}
}

func nameOf(v ssa.Value) string {
	if v == nil {
		return ""
	}
	return v.Name()
}

func (e *Encoder) ret(in *ssa.Return, st *State, pc string) {
	if e.fc == nil {
		return
	}
	env := e.envAt(st, in.Block(), nil)
	env.localsFirst = false // in postconditions a parameter name denotes its entry value
	for i, r := range in.Results {
		if i < len(e.fc.ResultNames) && e.fc.ResultNames[i] != "_" {
			env.vars[e.fc.ResultNames[i]] = e.val(r)
		}
	}
	retK := e.counts["$ret"]
	e.counts["$ret"]++
	if e.primary && !e.fc.Synth && in.Block() != e.fn.Recover {
		// vacuity probe: a return that no input reaches under the assumptions made so far (requires, trusted
		// contracts, assume sites, monitor invariants) is reported in the evidence
		o := e.addObl("cover-return", "this return is reachable under the assumptions made on the way", pc, "false")
		o.IsCover, o.Soft = true, true
	}
	for i, en := range e.fc.Ensures {
		if !e.clauseInMode(en) {
			continue
		}
		s, err := env.ElabBool(en.E)
		if err != nil {
			if strings.Contains(err.Error(), "unknown identifier $call") {
				continue // the dynamic call named by the clause does not happen on this return path
			}
			e.errs = append(e.errs, fmt.Sprintf("ensures %q: %v", en.Text, err))
			continue
		}
		kind := fmt.Sprintf("post%d@ret%d", i, retK)
		o := e.addObl(kind, en.Text, pc, s)
		o.Name = strings.TrimSuffix(o.Name, "#0")
		for _, r := range in.Results {
			v := e.val(r)
			tag := ""
			switch {
			case isBool(v.T):
				tag = "bool"
			case isInt(v.T) && e.mode == ModeInt:
				tag = "int"
			case isInt(v.T):
				w, _, _ := intInfo(v.T)
				tag = fmt.Sprintf("bv%d", w)
			}
			o.Results = append(o.Results, ResultTerm{Term: v.S, Sort: tag})
		}
	}
	if e.fc.HasMod && e.primary {
		e.frameObl(st, pc, env)
	}
}

func (e *Encoder) frameObl(st *State, pc string, env *Env) {
	c := e.c
	// locations allowed to change, evaluated in the pre-state
	var allowed []string
	p := c.fresh("fp")
	c.declare(p, "Loc")
	for i, m := range e.fc.Modifies {
		cl, err := e.modClause(e.baseEnv, m, p)
		if err != nil {
			e.errs = append(e.errs, fmt.Sprintf("modifies %q: %v", e.fc.ModText[i], err))
			return
		}
		allowed = append(allowed, cl)
	}
	allowed = append(allowed, fmt.Sprintf("(>= (rootof %s) ctr0)", p))
	var keys []string
	for k := range c.memSorts {
		keys = append(keys, k)
	}
	sortStrings(keys)
	var same []string
	for _, k := range keys {
		srt := c.memSorts[k]
		cur := st.get(c, k, srt)
		old := e.entry.get(c, k, srt)
		if cur == old {
			continue
		}
		if strings.HasPrefix(k, "mapdom_") || strings.HasPrefix(k, "mapval_") {
			continue // maps are not Loc-indexed: map contents are outside the frame obligation
		}
		if strings.HasPrefix(k, "arr_") {
			same = append(same, fmt.Sprintf("(=> (is_lelem %s) (= (select (select %s (ebase %s)) (eidx %s)) (select (select %s (ebase %s)) (eidx %s))))", p, cur, p, p, old, p, p))
		} else {
			same = append(same, fmt.Sprintf("(= (select %s %s) (select %s %s))", cur, p, old, p))
		}
	}
	if len(same) == 0 {
		return
	}
	e.addObl("frame", "only the modifies set changes", pc, or(or(allowed...), and(same...)))
}

// modClause: formula "location p is covered by modifies-expression m".
func (e *Encoder) modClause(env *Env, m Expr, p string) (s string, err error) {
	defer func() {
		if r := recover(); r != nil {
			if ee, ok := r.(elabErr); ok {
				err = ee
				return
			}
			panic(r)
		}
	}()
	c := e.c
	if call, ok := m.(*ECall); ok {
		if id, ok := call.Fun.(*EIdent); ok && id.Name == "elems" {
			v := env.elab(call.Args[0])
			intT := types.Typ[types.Int]
			off := fmt.Sprintf("(soff %s)", v.S)
			if sl, ok := v.T.Underlying().(*types.Slice); ok && !scalarElem(sl.Elem()) {
				// aggregate elements: every cell below an element of the range (fields of struct elements)
				c.declareElemRoot()
				p = fmt.Sprintf("(elemroot %s)", p)
			}
			return fmt.Sprintf("(and (is_lelem %s) (= (ebase %s) (sbase %s)) %s %s)", p, p, v.S,
				c.cmp("<=", intT, off, fmt.Sprintf("(eidx %s)", p)), c.cmp("<", intT, fmt.Sprintf("(eidx %s)", p), c.binopIdx("+", off, fmt.Sprintf("(scap %s)", v.S)))), nil
		}
	}
	if call, ok := m.(*ECall); ok {
		if id, ok := call.Fun.(*EIdent); ok && id.Name == "object" {
			root, err := e.objectRoot(env, call.Args[0])
			if err != nil {
				return "", err
			}
			return fmt.Sprintf("(= (rootof %s) %s)", p, root), nil
		}
	}
	loc, t, ok := env.addr(m)
	if !ok {
		return "", fmt.Errorf("not addressable")
	}
	return e.coveredBy(loc, t, p), nil
}

func (e *Encoder) coveredBy(loc string, t types.Type, p string) string {
	switch u := t.Underlying().(type) {
	case *types.Struct:
		var cs []string
		for i := 0; i < u.NumFields(); i++ {
			cs = append(cs, e.coveredBy(e.c.lfield(loc, u, i), u.Field(i).Type(), p))
		}
		return or(cs...)
	case *types.Array:
		if scalarElem(u.Elem()) {
			return fmt.Sprintf("(and (is_lelem %s) (= (ebase %s) %s))", p, p, loc)
		}
		if u.Len() <= 64 {
			var cs []string
			for i := int64(0); i < u.Len(); i++ {
				cs = append(cs, e.coveredBy(fmt.Sprintf("(lelem %s %s)", loc, e.c.idxLit(i)), u.Elem(), p))
			}
			return or(cs...)
		}
	}
	return fmt.Sprintf("(= %s %s)", p, loc)
}

func sortStrings(s []string) {
	for i := 1; i < len(s); i++ {
		for j := i; j > 0 && s[j] < s[j-1]; j-- {
			s[j], s[j-1] = s[j-1], s[j]
		}
	}
}

func init() { _ = strings.Join }
