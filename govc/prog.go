package main

import (
	"fmt"
	"go/constant"
	"go/types"
	"math/big"
	"os"
	"sort"
	"strings"

	"golang.org/x/tools/go/packages"
	"golang.org/x/tools/go/ssa"
	"golang.org/x/tools/go/ssa/ssautil"
)

type Program struct {
	dir       string
	pkgs      []*packages.Package
	prog      *ssa.Program
	spkgs     []*ssa.Package
	specs     *SpecEnv
	files     []*SpecFile
	contracts map[*ssa.Function]*FuncContract
	byKey     map[string]*ssa.Function // "pkgname.Key"
	insts     map[*ssa.Function][]*ssa.Function // generic origin -> instantiations with bodies
	ifaces    map[string]*FuncContract // "Iface.Method"
	typeIDs   map[string]int
	sizes     types.Sizes
	lemmas    []*lemmaRef
	errs      []string
	fcPkg     map[*FuncContract]*ssa.Package
	constGlobals map[string]bool
	audits    []*auditRef
	monitors  []*monitorRef
}

type lemmaRef struct {
	l   *Lemma
	pkg *types.Package
}

func (p *Program) typeID(t types.Type) int {
	k := t.String()
	if id, ok := p.typeIDs[k]; ok {
		return id
	}
	id := len(p.typeIDs) + 1
	p.typeIDs[k] = id
	return id
}

func (p *Program) contractFor(fn *ssa.Function) *FuncContract {
	if fn == nil {
		return nil
	}
	if fc, ok := p.contracts[fn]; ok {
		return fc
	}
	if o := fn.Origin(); o != nil {
		return p.contracts[o]
	}
	return nil
}

func (p *Program) ifaceContract(m *types.Func) *FuncContract {
	recv := m.Type().(*types.Signature).Recv()
	if recv == nil {
		return nil
	}
	t := recv.Type()
	if n, ok := t.(*types.Named); ok {
		return p.ifaces[n.Obj().Name()+"."+m.Name()]
	}
	return nil
}

// modTypes returns the static types of a contract's modifies expressions (nil entries when unknown).
func (p *Program) modTypes(fn *ssa.Function, fc *FuncContract) []types.Type {
	c := NewCtx(ModeInt, p.specs)
	env := &Env{c: c, pkg: fn.Pkg.Pkg, vars: map[string]Val{}, mem: func(k, s string) string { return "M" }}
	names := paramNames(fn, fc)
	var ptypes []types.Type
	if r := fn.Signature.Recv(); r != nil {
		ptypes = append(ptypes, r.Type())
	}
	for i := 0; i < fn.Signature.Params().Len(); i++ {
		ptypes = append(ptypes, fn.Signature.Params().At(i).Type())
	}
	for i, t := range ptypes {
		if i < len(names) {
			env.vars[names[i]] = Val{T: t, S: "x"}
		}
	}
	var out []types.Type
	for _, m := range fc.Modifies {
		func() {
			defer func() {
				if r := recover(); r != nil {
					out = append(out, nil)
				}
			}()
			if call, ok := m.(*ECall); ok {
				if id, ok := call.Fun.(*EIdent); ok && id.Name == "elems" {
					v := env.elab(call.Args[0])
					out = append(out, v.T.Underlying().(*types.Slice).Elem())
					return
				}
			}
			_, t, ok := env.addr(m)
			if !ok {
				out = append(out, nil)
				return
			}
			out = append(out, t)
		}()
	}
	return out
}

type LoadSpec struct {
	Dir      string
	Patterns []string
	Overlay  map[string][]byte
}

func Load(ls LoadSpec) (*Program, error) {
	cfg := &packages.Config{
		Mode:       packages.LoadAllSyntax,
		Dir:        ls.Dir,
		BuildFlags: []string{"-tags=verif"},
		Overlay:    ls.Overlay,
		Env:        append(os.Environ(), "GOFLAGS=-mod=mod", "GOPROXY=off"),
	}
	pkgs, err := packages.Load(cfg, ls.Patterns...)
	if err != nil {
		return nil, err
	}
	var errs []string
	packages.Visit(pkgs, nil, func(p *packages.Package) {
		for _, e := range p.Errors {
			errs = append(errs, e.Error())
		}
	})
	if len(errs) > 0 {
		return nil, fmt.Errorf("package errors: %s", strings.Join(errs, "; "))
	}
	// InstantiateGenerics: every instantiation of a generic function gets its own monomorphised body
	// (concrete types), which is what the encoder verifies; the contract stays on the generic origin.
	prog, spkgs := ssautil.AllPackages(pkgs, ssa.GlobalDebug|ssa.InstantiateGenerics)
	// only build the requested packages' function bodies (and dependencies lazily)
	for _, sp := range spkgs {
		if sp != nil {
			sp.Build()
		}
	}
	p := &Program{dir: ls.Dir, pkgs: pkgs, prog: prog, spkgs: spkgs, contracts: map[*ssa.Function]*FuncContract{},
		byKey: map[string]*ssa.Function{}, ifaces: map[string]*FuncContract{}, typeIDs: map[string]int{},
		sizes: types.SizesFor("gc", "amd64"), fcPkg: map[*FuncContract]*ssa.Package{}}
	p.specs = &SpecEnv{byNm: map[string]*SpecFn{}}
	// constant methods of concrete types: `func (*T) Key() int16 { return 3 }` (one block, returns an integer literal)
	prev := constMethodHook
	constMethodHook = func(t types.Type, name string) (*big.Int, types.Type, bool) {
		ms := prog.MethodSets.MethodSet(t)
		for i := 0; i < ms.Len(); i++ {
			sel := ms.At(i)
			if sel.Obj().Name() != name {
				continue
			}
			fn := prog.MethodValue(sel)
			if fn == nil || len(fn.Blocks) != 1 {
				break
			}
			for _, in := range fn.Blocks[0].Instrs {
				switch in := in.(type) {
				case *ssa.DebugRef:
				case *ssa.Return:
					if len(in.Results) == 1 {
						if k, ok := in.Results[0].(*ssa.Const); ok && k.Value != nil && k.Value.Kind() == constant.Int {
							if v, ok := new(big.Int).SetString(k.Value.ExactString(), 10); ok {
								return v, k.Type(), true
							}
						}
					}
					return nil, nil, false
				default:
					return nil, nil, false
				}
			}
		}
		if prev != nil {
			return prev(t, name)
		}
		return nil, nil, false
	}
	// contract files
	for i, pkg := range pkgs {
		sp := spkgs[i]
		if sp == nil {
			continue
		}
		for _, f := range pkg.Syntax {
			has := false
			for _, cg := range f.Comments {
				for _, c := range cg.List {
					if strings.HasPrefix(c.Text, "//@") || strings.HasPrefix(c.Text, "// @") {
						has = true
					}
				}
			}
			if !has {
				continue
			}
			sf, err := ParseSpecFile(pkg.Fset, f)
			if err != nil {
				return nil, err
			}
			p.files = append(p.files, sf)
			for _, s := range sf.Specs {
				s.Pkg = pkg.Types
				if p.specs.byNm[s.Name] != nil {
					return nil, fmt.Errorf("duplicate spec %s", s.Name)
				}
				p.specs.byNm[s.Name] = s
				p.specs.specs = append(p.specs.specs, s)
			}
			for _, l := range sf.Lemmas {
				p.lemmas = append(p.lemmas, &lemmaRef{l, pkg.Types})
			}
			for _, fc := range sf.Funcs {
				p.fcPkg[fc] = sp
			}
			for _, a := range sf.Audits {
				p.audits = append(p.audits, &auditRef{a, sp})
			}
			for _, m := range sf.Monitors {
				p.monitors = append(p.monitors, &monitorRef{m, sp})
			}
		}
	}
	// index functions
	all := ssautil.AllFunctions(prog)
	mine := map[*ssa.Package]bool{}
	for _, sp := range spkgs {
		if sp != nil {
			mine[sp] = true
		}
	}
	p.computeConstGlobals(all, mine)
	p.specs.constGlobals = p.constGlobals
	p.insts = map[*ssa.Function][]*ssa.Function{}
	for fn := range all {
		if o := fn.Origin(); o != nil && o != fn && len(fn.Blocks) > 0 {
			p.insts[o] = append(p.insts[o], fn) // bodies are verified per instantiation (concrete types)
			// methods of generic types are only reachable through their instantiations: index the origin here
			if o.Pkg != nil && mine[o.Pkg] {
				p.byKey[o.Pkg.Pkg.Path()+"|"+o.RelString(o.Pkg.Pkg)] = o
			}
			continue
		}
		if fn.Pkg == nil || !mine[fn.Pkg] || fn.Synthetic != "" && !strings.HasPrefix(fn.Synthetic, "package init") {
			continue
		}
		if fn.Origin() != nil {
			continue // instantiation; contracts attach to the generic origin
		}
		key := fn.Pkg.Pkg.Path() + "|" + fn.RelString(fn.Pkg.Pkg)
		p.byKey[key] = fn
	}
	for _, sf := range p.files {
		for _, fc := range sf.Funcs {
			sp := p.fcPkg[fc]
			if fc.Extern {
				fn := p.resolveExtern(sp, fc)
				if fn == nil {
					p.errs = append(p.errs, fmt.Sprintf("%s:%d: extern contract %q does not resolve", fc.File, fc.Line, fc.Key))
					continue
				}
				p.contracts[fn] = fc
				continue
			}
			fn := p.byKey[sp.Pkg.Path()+"|"+fc.Key]
			if fn == nil {
				// interface method contract?
				if fc.Decl.Recv != nil {
					tn := strings.TrimPrefix(types.ExprString(fc.Decl.Recv.List[0].Type), "*")
					if t := (&Env{pkg: sp.Pkg}).resolveType(tn); t != nil {
						if nt, ok := t.(*types.Named); ok {
							if _, isI := nt.Underlying().(*types.Interface); isI {
								// contract for an interface method (of this package or of an imported one)
								p.ifaces[nt.Obj().Name()+"."+fc.Decl.Name.Name] = fc
								continue
							}
						}
					}
				}
				p.errs = append(p.errs, fmt.Sprintf("%s:%d: contract anchor %q does not resolve to a function in %s", fc.File, fc.Line, fc.Key, sp.Pkg.Path()))
				continue
			}
			if p.contracts[fn] != nil {
				p.errs = append(p.errs, fmt.Sprintf("%s:%d: duplicate contract for %s", fc.File, fc.Line, fc.Key))
				continue
			}
			// arity check
			want := len(fn.Params)
			if fn.Signature.Recv() != nil {
				want--
			}
			if len(fc.ParamNames) != want {
				p.errs = append(p.errs, fmt.Sprintf("%s:%d: contract for %s names %d parameters, function has %d", fc.File, fc.Line, fc.Key, len(fc.ParamNames), want))
				continue
			}
			if len(fc.ResultNames) != fn.Signature.Results().Len() {
				p.errs = append(p.errs, fmt.Sprintf("%s:%d: contract for %s names %d results, function has %d", fc.File, fc.Line, fc.Key, len(fc.ResultNames), fn.Signature.Results().Len()))
				continue
			}
			p.contracts[fn] = fc
		}
	}
	return p, nil
}

// computeConstGlobals finds package-level variables that hold a non-nil error created in the package
// initialiser and are never assigned anywhere else in the package: they are treated as distinct
// non-nil constants (a syntactic whole-package check, redone on every run).
func (p *Program) computeConstGlobals(all map[*ssa.Function]bool, mine map[*ssa.Package]bool) {
	p.constGlobals = map[string]bool{"io.EOF": true, "io.ErrUnexpectedEOF": true, "io.ErrShortBuffer": true, "context.Canceled": true, "context.DeadlineExceeded": true}
	good := map[*ssa.Global]bool{}
	bad := map[*ssa.Global]bool{}
	for fn := range all {
		if fn.Pkg == nil || !mine[fn.Pkg] {
			continue
		}
		isInit := fn.Name() == "init" && fn.Synthetic != ""
		for _, b := range fn.Blocks {
			for _, in := range b.Instrs {
				// any use of the global's address other than load/store counts as escaping
				var ops []*ssa.Value
				for _, op := range in.Operands(ops) {
					g, ok := (*op).(*ssa.Global)
					if !ok {
						continue
					}
					switch x := in.(type) {
					case *ssa.Store:
						if x.Addr == ssa.Value(g) && isInit && nonNilErrorValue(x.Val) && !good[g] {
							good[g] = true
						} else {
							bad[g] = true
						}
					case *ssa.UnOp:
						// load: fine
					case *ssa.DebugRef:
					default:
						bad[g] = true
					}
				}
			}
		}
	}
	for g := range good {
		if !bad[g] {
			p.constGlobals[g.Pkg.Pkg.Path()+"."+g.Name()] = true
		}
	}
}

func nonNilErrorValue(v ssa.Value) bool {
	switch x := v.(type) {
	case *ssa.Call:
		if c := x.Common().StaticCallee(); c != nil {
			n := c.String()
			return n == "errors.New" || n == "fmt.Errorf"
		}
	case *ssa.MakeInterface:
		if _, ok := x.X.(*ssa.Alloc); ok {
			return true
		}
	}
	return false
}

// resolveExtern finds the method named by `extern func (r *pkg.T) M(...)` in a dependency.
func (p *Program) resolveExtern(sp *ssa.Package, fc *FuncContract) *ssa.Function {
	if fc.Decl.Recv == nil || len(fc.Decl.Recv.List) == 0 {
		return nil
	}
	ts := types.ExprString(fc.Decl.Recv.List[0].Type)
	// `extern func (pkgname) F(...)`: a package-level function of an imported package
	for _, imp := range sp.Pkg.Imports() {
		if imp.Name() == ts {
			if ip := p.prog.Package(imp); ip != nil {
				if f := ip.Func(fc.Decl.Name.Name); f != nil {
					fc.Decl.Recv = nil // not a method: parameters are exactly the declared ones
					return f
				}
			}
			return nil
		}
	}
	env := &Env{pkg: sp.Pkg}
	t := env.resolveType(ts)
	if t == nil {
		return nil
	}
	sel := types.NewMethodSet(t).Lookup(nil, fc.Decl.Name.Name)
	if sel == nil {
		// unexported or pointer-receiver method: try the pointer type and the defining package
		if nt, ok := t.(*types.Named); ok {
			sel = types.NewMethodSet(types.NewPointer(nt)).Lookup(nt.Obj().Pkg(), fc.Decl.Name.Name)
		} else if pt, ok := t.(*types.Pointer); ok {
			if nt, ok := pt.Elem().(*types.Named); ok {
				sel = types.NewMethodSet(t).Lookup(nt.Obj().Pkg(), fc.Decl.Name.Name)
			}
		}
	}
	if sel == nil {
		return nil
	}
	return p.prog.MethodValue(sel)
}

func (p *Program) sortedContracts() []*ssa.Function {
	var fns []*ssa.Function
	for fn := range p.contracts {
		fns = append(fns, fn)
	}
	sort.Slice(fns, func(i, j int) bool { return fns[i].String() < fns[j].String() })
	return fns
}
