package main

// Function encoder: symbolic execution of go/ssa with state merging, loops cut at headers.

import (
	"fmt"
	"go/constant"
	"go/token"
	"go/types"
	"math/big"
	"regexp"
	"sort"
	"strings"

	"golang.org/x/tools/go/ssa"
)

type State struct {
	mem   map[string]string
	epoch string
	ctr   string
}

func (s *State) clone() *State {
	n := &State{mem: map[string]string{}, epoch: s.epoch, ctr: s.ctr}
	for k, v := range s.mem {
		n.mem[k] = v
	}
	return n
}

func (s *State) get(c *Ctx, key, sort string) string {
	if t, ok := s.mem[key]; ok {
		return t
	}
	n := fmt.Sprintf("M_%s_%s", key, s.epoch)
	c.declare(n, sort)
	c.memSorts[key] = sort
	return n
}

func (s *State) memFn(c *Ctx) MemFn {
	return func(key, sort string) string { return s.get(c, key, sort) }
}

type Obligation struct {
	Name    string
	Fn      string
	Kind    string
	Text    string
	Props   []string
	ctx     *Ctx
	pos     int
	pc      string
	goal    string
	Model   []ModelVar
	IsCover bool // must be SAT (vacuity guard)
	Soft    bool // informational cover (a return that is unreachable under the assumptions is reported, not failed)
	ssaFn   *ssa.Function
	Results []ResultTerm
	Synth   bool
}

type ResultTerm struct {
	Term string `json:"term"`
	Sort string `json:"sort"`
}

type ModelVar struct {
	Name string // Go-level name (param)
	Type types.Type
	Term string
}

type Encoder struct {
	prog   *Program
	fn     *ssa.Function
	fc     *FuncContract
	c      *Ctx
	mode   Mode
	vals   map[ssa.Value]Val
	pcs    map[*ssa.BasicBlock]string
	exit   map[*ssa.BasicBlock]*State
	obls   []*Obligation
	havocs []string
	notes  []string
	counts map[string]int
	entry  *State
	params map[string]Val
	baseEnv *Env
	defers []*ssa.Defer
	loops  map[*ssa.BasicBlock]*loopInfo
	back   map[[2]*ssa.BasicBlock]bool
	order  []*ssa.BasicBlock
	curSt  *State
	curPC  string
	curBlk *ssa.BasicBlock
	labels map[string]*Env
	ghost  map[string]Val
	errs   []string
	modelVars []ModelVar
	pkg    *types.Package
	siteCounts map[string]int
	siteHit    map[string]bool
	closures   map[string]*ssa.MakeClosure
	arrSlices  map[string]arrSlice
	ranges     map[*ssa.Range]rangeIter
	usedContracts map[string]bool
	usedStdlib    map[string]bool
	monitor    monitorHooks
	held       []heldMonitor
	lockSites, unlockSites []lockSite
	frozen     []frozenLoc
	curCall    *ssa.CallCommon
	primary    bool
	dual       bool
	wtSeen     map[string]bool
	nonLocalKeys map[string]bool
	loopOuterAllocs map[*ssa.Alloc]bool
	reachedPC  map[string]string
	curInstr   ssa.Instruction
	ordLog     map[string][]ssa.Instruction
	ordSeed    map[string][]ssa.Instruction
	loopMapKeys map[string]string
	mapPrev, mapHad *Val // during a map update's site assertions: the entry before the update
	stable      map[*ssa.Alloc]bool
}

type loopInfo struct {
	header *ssa.BasicBlock
	ord    int
	body   map[*ssa.BasicBlock]bool
	phiVal map[*ssa.Phi]Val
	spec   *LoopSpec
	preSt  *State
}

func (e *Encoder) note(format string, a ...any) {
	e.notes = append(e.notes, fmt.Sprintf(format, a...))
}

func (e *Encoder) havoc(what string) {
	e.havocs = append(e.havocs, what)
}

func (e *Encoder) oblName(kind string) string {
	k := e.counts[kind]
	e.counts[kind]++
	if e.dual {
		return fmt.Sprintf("%s[%s]/%s#%d", e.fnName(), e.mode, kind, k)
	}
	return fmt.Sprintf("%s/%s#%d", e.fnName(), kind, k)
}

func (e *Encoder) fnName() string { return qualName(e.fn) }

// qualName: package name, or the package path inside the repository when the name alone is
// ambiguous (pkg/kmsg/internal/kbin is a copy of pkg/kbin).
func qualName(fn *ssa.Function) string {
	p := fnTypesPkg(fn)
	name := p.Name()
	if strings.Contains(p.Path(), "/internal/") {
		name = strings.TrimPrefix(p.Path(), "github.com/twmb/franz-go/")
	}
	return name + "." + fn.RelString(p)
}

func (e *Encoder) addObl(kind, text, pc, goal string) *Obligation {
	o := &Obligation{Name: e.oblName(kind), Fn: e.fnName(), Kind: kind, Text: text, ctx: e.c, pos: e.c.pos(), pc: pc, goal: goal, Model: e.modelVars, ssaFn: e.fn}
	if e.fc != nil {
		o.Props = e.fc.Props
		o.Synth = e.fc.Synth
	}
	e.obls = append(e.obls, o)
	return o
}

func (e *Encoder) freshVal(prefix string, t types.Type) Val {
	c := e.c
	if tup, ok := t.(*types.Tuple); ok {
		var vs []Val
		for i := 0; i < tup.Len(); i++ {
			vs = append(vs, e.freshVal(prefix, tup.At(i).Type()))
		}
		return Val{T: t, Tuple: vs}
	}
	n := c.fresh(prefix)
	c.declare(n, c.sortOf(t))
	return Val{T: t, S: n}
}

// wellTyped returns the constraints that any value of type t satisfies (integer range, slice shape).
func (e *Encoder) wellTyped(v Val, ctr string) string {
	c := e.c
	if v.Tuple != nil {
		var cs []string
		for _, x := range v.Tuple {
			cs = append(cs, e.wellTyped(x, ctr))
		}
		return and(cs...)
	}
	if v.T == nil {
		return "true"
	}
	switch u := v.T.Underlying().(type) {
	case *types.Basic:
		if isInt(u) {
			if r := c.inRange(v.T, v.S); r != "" {
				return r
			}
		}
		if isString(u) {
			return c.cmp("<=", types.Typ[types.Int], c.idxLit(0), fmt.Sprintf("(str_len %s)", v.S))
		}
	case *types.Slice:
		w := c.sliceWF(v.S)
		if ctr != "" {
			w = and(w, fmt.Sprintf("(< (rootof (sbase %s)) %s)", v.S, ctr))
		}
		return w
	case *types.Pointer:
		if ctr != "" {
			return fmt.Sprintf("(< (rootof %s) %s)", v.S, ctr)
		}
	case *types.Struct:
		var cs []string
		sn := c.structSort(u)
		for i := 0; i < u.NumFields(); i++ {
			cs = append(cs, e.wellTyped(Val{T: u.Field(i).Type(), S: fmt.Sprintf("(%s_f%d %s)", sn, i, v.S)}, ctr))
		}
		return and(cs...)
	}
	return "true"
}

// assumeCellWT: every memory cell holds a well-typed value (Go's type invariant); assumed for cells
// read by contract expressions.
// The assumption is made under the path condition of the block in which the contract expression is evaluated:
// the cell may hold a value COMPUTED on that path (b.Src[2:] stored back into b.Src), and an unguarded
// "0 <= len-2" would make every other path (len < 2) infeasible and its postconditions vacuous. (Found by the
// cover-return probes: the short-input returns of the kbin Reader methods were dead.)
func (e *Encoder) assumeCellWT(v Val) {
	if e.wtSeen == nil {
		e.wtSeen = map[string]bool{}
	}
	pc := e.curPC
	if pc == "" {
		pc = "true"
	}
	if e.wtSeen[pc+"|"+v.S] {
		return
	}
	e.wtSeen[pc+"|"+v.S] = true
	if w := e.wellTyped(v, ""); w != "true" {
		e.c.assume(implies(pc, w))
	}
}

// entryRead: the term is syntactically a read of the function's ENTRY memory (M_<key>_0). Whatever such a cell
// holds was stored before the function started, so a pointer or slice read from it refers to an object that
// existed at entry - not to anything this function has allocated since.
var entryReadRe = regexp.MustCompile(`^\(select (\(select )?M_[A-Za-z0-9_.]+_0 `)

func entryRead(s string) bool { return entryReadRe.MatchString(s) }

func (e *Encoder) assumeWT(v Val, pc string, st *State) {
	ctr := st.ctr
	if v.Tuple == nil && entryRead(v.S) {
		ctr = "ctr0"
	}
	if w := e.wellTyped(v, ctr); w != "true" {
		e.c.assume(implies(pc, w))
	}
}

// ---------- values ----------

func (e *Encoder) constVal(k *ssa.Const) Val {
	c := e.c
	t := k.Type()
	if k.Value == nil {
		return e.zero(t)
	}
	switch k.Value.Kind() {
	case constant.Bool:
		return Val{T: t, S: fmt.Sprint(constant.BoolVal(k.Value))}
	case constant.Int:
		v, _ := new(big.Int).SetString(k.Value.ExactString(), 10)
		if isFloat(t) {
			n := "fconst_" + sanitize(k.Value.ExactString())
			c.declare(n, "F64")
			return Val{T: t, S: n}
		}
		return Val{T: t, S: c.lit(t, v)}
	case constant.String:
		return Val{T: t, S: c.strConst(constant.StringVal(k.Value))}
	case constant.Float, constant.Complex:
		n := "fconst_" + sanitize(k.Value.ExactString())
		c.declare(n, "F64")
		return Val{T: t, S: n}
	}
	return e.freshVal("const", t)
}

func (e *Encoder) zero(t types.Type) Val {
	c := e.c
	if _, ok := t.(*types.TypeParam); ok {
		// the zero value of an opaque type parameter: one fixed element of its sort
		return Val{T: t, S: fmt.Sprintf("(mk_%s 0)", c.sortOf(t))}
	}
	switch u := t.Underlying().(type) {
	case *types.Basic:
		switch {
		case isInt(u):
			return Val{T: t, S: c.lit(t, big.NewInt(0))}
		case isBool(u):
			return Val{T: t, S: "false"}
		case isString(u):
			return Val{T: t, S: c.strConst("")}
		case isFloat(u):
			return Val{T: t, S: "fzero"}
		case u.Kind() == types.UnsafePointer || u.Kind() == types.UntypedNil:
			return Val{T: t, S: "lnil"}
		}
	case *types.Pointer:
		return Val{T: t, S: "lnil"}
	case *types.Slice:
		z := c.idxLit(0)
		return Val{T: t, S: fmt.Sprintf("(mkslice lnil %s %s %s)", z, z, z)}
	case *types.Interface:
		return Val{T: t, S: "iface_nil"}
	case *types.Map:
		return Val{T: t, S: "map_nil"}
	case *types.Chan:
		return Val{T: t, S: "chan_nil"}
	case *types.Signature:
		return Val{T: t, S: "fn_nil"}
	case *types.Struct:
		sn := c.structSort(u)
		if u.NumFields() == 0 {
			return Val{T: t, S: "mk_" + sn}
		}
		var fs []string
		for i := 0; i < u.NumFields(); i++ {
			fs = append(fs, e.zero(u.Field(i).Type()).S)
		}
		return Val{T: t, S: fmt.Sprintf("(mk_%s %s)", sn, strings.Join(fs, " "))}
	case *types.Array:
		return Val{T: t, S: fmt.Sprintf("((as const %s) %s)", c.sortOf(t), e.zero(u.Elem()).S)}
	}
	return e.freshVal("zero", t)
}

func (e *Encoder) val(v ssa.Value) Val {
	if x, ok := e.vals[v]; ok {
		return x
	}
	switch v := v.(type) {
	case *ssa.Const:
		return e.constVal(v)
	case *ssa.Global:
		return Val{T: v.Type(), S: e.c.globalLoc(v.Pkg.Pkg.Path() + "." + v.Name())}
	case *ssa.Function:
		n := "fn_" + sanitize(v.String())
		e.c.declare(n, "Fn")
		return Val{T: v.Type(), S: n}
	case *ssa.Builtin:
		return Val{T: v.Type(), S: "fn_nil"}
	case *ssa.FreeVar:
		x := e.freshVal("free_"+sanitize(v.Name()), v.Type())
		e.vals[v] = x
		return x
	}
	// value not yet defined (unreachable def or unsupported): havoc
	x := e.freshVal("undef", v.Type())
	e.vals[v] = x
	return x
}

// ---------- memory ----------

func (e *Encoder) envFor(st *State) *Env {
	env := &Env{c: e.c, pkg: e.pkg, vars: map[string]Val{}, mem: st.memFn(e.c), labels: e.labels, freshBase: "ctr0", wt: e.assumeCellWT}
	return env
}

func (e *Encoder) load(st *State, loc string, t types.Type) Val {
	env := e.envFor(st)
	v, err := func() (v Val, err error) {
		defer func() {
			if r := recover(); r != nil {
				if ee, ok := r.(elabErr); ok {
					err = ee
					return
				}
				panic(r)
			}
		}()
		return env.load(loc, t), nil
	}()
	if err != nil {
		e.havoc("load: " + err.Error())
		return e.freshVal("ld", t)
	}
	return v
}

func (e *Encoder) store(st *State, loc string, t types.Type, v string) {
	c := e.c
	switch u := t.Underlying().(type) {
	case *types.Struct:
		sn := c.structSort(u)
		for i := 0; i < u.NumFields(); i++ {
			e.store(st, c.lfield(loc, u, i), u.Field(i).Type(), fmt.Sprintf("(%s_f%d %s)", sn, i, v))
		}
		return
	case *types.Array:
		if scalarElem(u.Elem()) {
			// the whole array value is one cell of the two-level array memory
			akey, asort := c.arrKey(u.Elem()), c.arrSort(u.Elem())
			cur := st.get(c, akey, asort)
			st.mem[akey] = c.define("M_"+akey, asort, fmt.Sprintf("(store %s %s %s)", cur, loc, v))
			return
		}
		if u.Len() > 64 {
			e.havocAll(st, fmt.Sprintf("store of large array [%d]", u.Len()))
			return
		}
		for i := int64(0); i < u.Len(); i++ {
			e.store(st, fmt.Sprintf("(lelem %s %s)", loc, c.idxLit(i)), u.Elem(), fmt.Sprintf("(select %s %s)", v, c.idxLit(i)))
		}
		return
	}
	key := c.memKey(t)
	sort := c.memSort(t)
	akey, asort := c.arrKey(t), c.arrSort(t)
	if b, i, ok := splitLelem(loc); ok {
		cur := st.get(c, akey, asort)
		st.mem[akey] = c.define("M_"+akey, asort, fmt.Sprintf("(store %s %s (store (select %s %s) %s %s))", cur, b, cur, b, i, v))
		return
	}
	cur := st.get(c, key, sort)
	if flatLoc(loc) {
		st.mem[key] = c.define("M_"+key, sort, fmt.Sprintf("(store %s %s %s)", cur, loc, v))
		return
	}
	acur := st.get(c, akey, asort)
	isel := fmt.Sprintf("(is_lelem %s)", loc)
	st.mem[key] = c.define("M_"+key, sort, fmt.Sprintf("(ite %s %s (store %s %s %s))", isel, cur, cur, loc, v))
	st.mem[akey] = c.define("M_"+akey, asort, fmt.Sprintf("(ite %s (store %s (ebase %s) (store (select %s (ebase %s)) (eidx %s) %s)) %s)", isel, acur, loc, acur, loc, loc, v, acur))
}

func (e *Encoder) havocAll(st *State, why string) { e.havocKeeping(st, why, nil) }

func (e *Encoder) havocRaw(st *State, why string) {
	e.havoc(why)
	st.mem = map[string]string{}
	st.epoch = e.c.fresh("e")
	e.bumpCtr(st)
}

func (e *Encoder) bumpCtr(st *State) {
	n := e.c.fresh("ctr")
	e.c.declare(n, "Int")
	e.c.assume(fmt.Sprintf("(>= %s %s)", n, st.ctr))
	st.ctr = n
}

func (e *Encoder) alloc(st *State) string {
	loc := fmt.Sprintf("(lroot %s)", st.ctr)
	loc = e.c.define("new", "Loc", loc)
	st.ctr = e.c.define("ctr", "Int", fmt.Sprintf("(+ %s 1)", st.ctr))
	return loc
}

// ---------- CFG ----------

func (e *Encoder) analyzeCFG() {
	fn := e.fn
	e.back = map[[2]*ssa.BasicBlock]bool{}
	e.loops = map[*ssa.BasicBlock]*loopInfo{}
	for _, b := range fn.Blocks {
		for _, s := range b.Succs {
			if s.Dominates(b) {
				e.back[[2]*ssa.BasicBlock{b, s}] = true
				if e.loops[s] == nil {
					e.loops[s] = &loopInfo{header: s, body: map[*ssa.BasicBlock]bool{s: true}}
				}
			}
		}
	}
	// natural loop bodies
	for edge := range e.back {
		li := e.loops[edge[1]]
		var stack []*ssa.BasicBlock
		if !li.body[edge[0]] {
			li.body[edge[0]] = true
			stack = append(stack, edge[0])
		}
		for len(stack) > 0 {
			b := stack[len(stack)-1]
			stack = stack[:len(stack)-1]
			for _, p := range b.Preds {
				if !li.body[p] {
					li.body[p] = true
					stack = append(stack, p)
				}
			}
		}
	}
	var hs []*ssa.BasicBlock
	for h := range e.loops {
		hs = append(hs, h)
	}
	sort.Slice(hs, func(i, j int) bool { return hs[i].Index < hs[j].Index })
	for i, h := range hs {
		e.loops[h].ord = i
		if e.fc != nil {
			e.loops[h].spec = e.fc.Loops[i]
		}
	}
	if e.fc != nil {
		for k := range e.fc.Loops {
			if k >= len(hs) {
				e.errs = append(e.errs, fmt.Sprintf("contract names loop %d but the function has %d loops", k, len(hs)))
			}
		}
	}
	// reverse postorder ignoring back edges
	seen := map[*ssa.BasicBlock]bool{}
	var post []*ssa.BasicBlock
	var dfs func(b *ssa.BasicBlock)
	dfs = func(b *ssa.BasicBlock) {
		seen[b] = true
		for _, s := range b.Succs {
			if !seen[s] && !e.back[[2]*ssa.BasicBlock{b, s}] {
				dfs(s)
			}
		}
		post = append(post, b)
	}
	if len(fn.Blocks) > 0 {
		dfs(fn.Blocks[0])
	}
	if fn.Recover != nil && !seen[fn.Recover] {
		// recover block: not modelled
	}
	for i := len(post) - 1; i >= 0; i-- {
		e.order = append(e.order, post[i])
	}
}

func edgeCond(e *Encoder, from, to *ssa.BasicBlock, idx int) string {
	if len(from.Instrs) == 0 {
		return "true"
	}
	if iff, ok := from.Instrs[len(from.Instrs)-1].(*ssa.If); ok {
		cnd := e.val(iff.Cond).S
		if from.Succs[0] == to && from.Succs[1] == to {
			return "true"
		}
		if idx == 0 {
			return cnd
		}
		return not(cnd)
	}
	return "true"
}

// rootedAtAlloc: the address is a local Alloc or a field/element path below one (the Alloc itself
// may escape; what matters is that the object did not exist when the function was entered).
func rootedAtAlloc(v ssa.Value) bool { return rootAlloc(v) != nil }

func rootAlloc(v ssa.Value) *ssa.Alloc {
	for {
		switch x := v.(type) {
		case *ssa.Alloc:
			return x
		case *ssa.FieldAddr:
			v = x.X
		case *ssa.IndexAddr:
			if _, ok := x.X.Type().Underlying().(*types.Pointer); !ok {
				return nil // element of a slice: backing array unknown
			}
			v = x.X
		default:
			return nil
		}
	}
}

// memKeysWritten conservatively lists the memory keys written in a set of blocks; all=true if unknown.
func (e *Encoder) memKeysWritten(blocks map[*ssa.BasicBlock]bool, skip map[ssa.Instruction]bool) (keys map[string]types.Type, all bool) {
	keys = map[string]types.Type{}
	e.nonLocalKeys = map[string]bool{}
	e.loopOuterAllocs = map[*ssa.Alloc]bool{}
	e.loopMapKeys = map[string]string{}
	noteMap := func(t types.Type) bool {
		mt, ok := t.Underlying().(*types.Map)
		if !ok {
			return false
		}
		dk, ds, vk, vs := e.envFor(e.entry).mapKeys(mt)
		e.loopMapKeys[dk], e.loopMapKeys[vk] = ds, vs
		return true
	}
	local := false // the store being classified goes through an address rooted at a local Alloc
	// shape: 0 both, 1 flat only, 2 array only
	var addShaped func(t types.Type, shape int)
	addShaped = func(t types.Type, shape int) {
		switch u := t.Underlying().(type) {
		case *types.Struct:
			for i := 0; i < u.NumFields(); i++ {
				addShaped(u.Field(i).Type(), 1)
			}
		case *types.Array:
			addShaped(u.Elem(), 2)
		default:
			if shape != 2 {
				keys[e.c.memKey(t)] = t
				if !local {
					e.nonLocalKeys[e.c.memKey(t)] = true
				}
			}
			if shape != 1 {
				keys[e.c.arrKey(t)] = t
				if !local {
					e.nonLocalKeys[e.c.arrKey(t)] = true
				}
			}
		}
	}
	addType := func(t types.Type) { addShaped(t, 0) }
	for b := range blocks {
		for _, in := range b.Instrs {
			local = false
			if skip[in] {
				continue // handled cell by cell (enc_loopfx.go)
			}
			switch in := in.(type) {
			case *ssa.Store:
				local = rootedAtAlloc(in.Addr)
				if al := rootAlloc(in.Addr); al != nil && !blocks[al.Block()] {
					e.loopOuterAllocs[al] = true
				}
				switch in.Addr.(type) {
				case *ssa.FieldAddr, *ssa.Alloc, *ssa.Global:
					addShaped(in.Val.Type(), 1)
				case *ssa.IndexAddr:
					addShaped(in.Val.Type(), 2)
				default:
					addType(in.Val.Type())
				}
			case *ssa.MapUpdate:
				if !noteMap(in.Map.Type()) {
					all = true
				}
			case *ssa.Next:
				// a range over a map advances its ghost visited set
				if rg, ok := in.Iter.(*ssa.Range); ok && !in.IsString {
					if mt, ok := rg.X.Type().Underlying().(*types.Map); ok {
						vk, _, srt := rangeGhostKeys(rg, e.c.sortOf(mt.Key()))
						e.loopMapKeys[vk] = srt
					}
				}
			case *ssa.Call:
				cm := in.Common()
				if bi, ok := cm.Value.(*ssa.Builtin); ok {
					switch bi.Name() {
					case "append", "copy":
						if st, ok := cm.Args[0].Type().Underlying().(*types.Slice); ok {
							addType(st.Elem())
						}
					case "len", "cap", "min", "max", "panic", "print", "println":
					case "delete":
						if !noteMap(cm.Args[0].Type()) {
							all = true
						}
					case "clear":
						all = true
					default:
						all = true
					}
					continue
				}
				callee := cm.StaticCallee()
				if callee != nil {
					if fc := e.prog.contractFor(callee); fc != nil && (fc.Pure || (fc.HasMod && len(fc.Modifies) == 0)) {
						continue
					}
					if e.prog.stdlibPure(callee) {
						continue
					}
					if emptyBody(callee) {
						continue
					}
					if ts, ok := stdlibWrites(callee); ok {
						for _, t := range ts {
							addShaped(t, 2)
						}
						continue
					}
					if fc := e.prog.contractFor(callee); fc != nil && fc.HasMod {
						ok := true
						for _, t := range e.prog.modTypes(callee, fc) {
							if t == nil {
								ok = false
							} else {
								addType(t)
							}
						}
						if ok {
							continue
						}
					}
				}
				all = true
			case *ssa.Go, *ssa.Defer, *ssa.Send, *ssa.Select, *ssa.RunDefers:
				all = true
			case *ssa.UnOp:
				if in.Op == token.ARROW {
					all = true
				}
			}
		}
	}
	return
}
