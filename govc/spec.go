package main

// Contract files: every `//@` comment line in a Go file named zz_verif_contracts.go (build tag verif)
// is a directive or the continuation of one.

import (
	"fmt"
	"go/ast"
	"go/parser"
	"go/token"
	"go/types"
	"regexp"
	"sort"
	"strconv"
	"strings"
)

type Clause struct {
	E    Expr
	Text string
	Line int
	Tag  string // optional label
}

type LoopSpec struct {
	Invariants []Clause
	Exits      []Clause
	Backs      []Clause // obligations on every back edge
	Unfolds    []Clause
	Unroll     int
}

type SiteSpec struct {
	Selector string // e.g. "call SetVersion#0", "store f#1", "return#0"
	Kind     string // assert | assume
	C        Clause
}

type GhostVar struct {
	Name, Type string
	Init       Expr
}

type FuncContract struct {
	Key      string
	Decl     *ast.FuncDecl
	DeclText string
	Mode     string
	Props    []string
	Requires []Clause
	Ensures  []Clause
	Modifies []Expr
	ModText  []string
	HasMod   bool
	NoPanic  bool
	Trusted  bool // contract assumed at call sites, body not verified (listed in evidence)
	Extern   bool // method of a dependency package
	Synth    bool // synthesized by the zero-annotation sweep
	AllocBound bool // every make in the function is bounded by the unread bytes of its kbin.Reader
	Unfolds  []Clause // spec-function instances unfolded at function entry
	AbstractMul bool  // encode * as an uninterpreted function in this function's obligations
	MemConst    bool  // memories as declared constants with equations instead of macros (quantifier-heavy proofs)
	LambdaFrame bool  // callee frames over slice element ranges as array lambdas instead of quantified frame axioms
	Pure     bool
	Loops    map[int]*LoopSpec
	Sites    []SiteSpec
	Ghosts   []GhostVar
	Assumes  []Clause
	Tokens   map[string]int // monitor counter -> contributions owned by the calling thread at entry
	Frozen   []Expr         // locations assumed immutable while the function runs
	UsesLemmas []string     // lemmas this function's proof relies on (assumed here, proved separately)
	AsHavoc    map[string]bool // callees whose contracts are not applied in this function (abstract call)
	Line     int
	File     string
	// resolved
	ParamNames  []string
	ResultNames []string
}

type SpecParam struct{ Name, Type string }

type SpecFn struct {
	Name   string
	Params []SpecParam
	Result string
	Body   Expr // nil => uninterpreted
	Text   string
	Mode   string // "" both, or restricts definition to one mode (opaque in the other)
	Rec    bool
	// Content: an uninterpreted function of the CONTENTS of its slice parameters (element sequence), not of
	// the slice header or the rest of memory: encoded over (array row, offset, length) with an extensionality
	// axiom, so that equal byte sequences at different places or in different memory states get equal values.
	Content bool
	Line    int
	Pkg     *types.Package
}

type Lemma struct {
	Name  string
	Mode  string
	Props []string
	C     Clause
	Uses  []string // names of function contracts whose ensures may be instantiated (by call syntax)
}

type SpecFile struct {
	Path    string
	Specs   []*SpecFn
	Funcs   []*FuncContract
	Lemmas  []*Lemma
	Assumes []string // raw text of every assume/trusted directive, for the evidence scan
	Audits  []*Audit
	Monitors []*Monitor
}

var directiveKW = map[string]bool{
	"spec": true, "func": true, "extern": true, "mode": true, "requires": true, "ensures": true, "modifies": true,
	"nopanic": true, "allocbound": true, "unfold": true, "loop": true, "site": true, "ghost": true, "lemma": true, "assume": true,
	"prop": true, "trusted": true, "pure": true, "end": true, "abstract": true,
	"audit": true, "transitions": true, "init-store": true, "deltas": true,
	"monitor": true, "cond": true, "protects": true, "invariant": true, "holds": true, "init": true, "counter": true, "token": true, "frozen": true,
	"uses": true,
}

// ParseSpecFile extracts directives from the comments of a parsed Go file.
func ParseSpecFile(fset *token.FileSet, f *ast.File) (*SpecFile, error) {
	sf := &SpecFile{Path: fset.File(f.Pos()).Name()}
	type dline struct {
		text string
		line int
	}
	var dirs []dline
	for _, cg := range f.Comments {
		for _, c := range cg.List {
			t := c.Text
			var body string
			if strings.HasPrefix(t, "//@") {
				body = t[3:]
			} else if strings.HasPrefix(t, "// @") {
				body = t[4:]
			} else {
				continue
			}
			line := fset.Position(c.Pos()).Line
			trim := strings.TrimSpace(body)
			if trim == "" {
				continue
			}
			first := trim
			if i := strings.IndexAny(trim, " \t("); i >= 0 {
				first = trim[:i]
			}
			if directiveKW[first] {
				dirs = append(dirs, dline{trim, line})
			} else if len(dirs) > 0 {
				dirs[len(dirs)-1].text += " " + trim
			} else {
				return nil, fmt.Errorf("%s:%d: continuation without directive", sf.Path, line)
			}
		}
	}
	var cur *FuncContract
	var curLemma *Lemma
	var curAudit *Audit
	var curMon *Monitor
	for _, d := range dirs {
		kw, rest := d.text, ""
		if i := strings.IndexAny(d.text, " \t"); i >= 0 {
			kw, rest = d.text[:i], strings.TrimSpace(d.text[i+1:])
		}
		rest = stripComment(rest)
		mkClause := func(s string) (Clause, error) {
			tag := ""
			if m := regexp.MustCompile(`^\[([A-Za-z0-9_\-]+)\]\s*`).FindStringSubmatch(s); m != nil {
				tag = m[1]
				s = s[len(m[0]):]
			}
			e, err := ParseExpr(s)
			if err != nil {
				return Clause{}, fmt.Errorf("%s:%d: %v", sf.Path, d.line, err)
			}
			return Clause{E: e, Text: s, Line: d.line, Tag: tag}, nil
		}
		switch kw {
		case "spec":
			s, err := parseSpecFn(rest, d.line)
			if err != nil {
				return nil, fmt.Errorf("%s:%d: %v", sf.Path, d.line, err)
			}
			sf.Specs = append(sf.Specs, s)
			cur, curLemma, curAudit, curMon = nil, nil, nil, nil
		case "func", "extern":
			// extern func (r *pkg.T) M(...): contract for a method of a dependency (always trusted)
			rest = strings.TrimPrefix(rest, "func ")
			// closures are named outer$1: '$' is not a Go identifier character, use a letter while parsing
			src := "package p\nfunc " + strings.ReplaceAll(rest, "$", "Ξ")
			fs := token.NewFileSet()
			pf, err := parser.ParseFile(fs, "c.go", src, 0)
			if err != nil || len(pf.Decls) != 1 {
				return nil, fmt.Errorf("%s:%d: bad func directive %q: %v", sf.Path, d.line, rest, err)
			}
			fd := pf.Decls[0].(*ast.FuncDecl)
			cur = &FuncContract{Decl: fd, DeclText: rest, Loops: map[int]*LoopSpec{}, Line: d.line, File: sf.Path}
			cur.Key = strings.ReplaceAll(declKey(fd), "Ξ", "$")
			if kw == "extern" {
				cur.Extern = true
				cur.Trusted = true
				sf.Assumes = append(sf.Assumes, fmt.Sprintf("extern (trusted) contract for %s", cur.Key))
			}
			for _, fl := range fd.Type.Params.List {
				for _, n := range fl.Names {
					cur.ParamNames = append(cur.ParamNames, n.Name)
				}
				if len(fl.Names) == 0 {
					cur.ParamNames = append(cur.ParamNames, "_")
				}
			}
			if fd.Type.Results != nil {
				for _, fl := range fd.Type.Results.List {
					for _, n := range fl.Names {
						cur.ResultNames = append(cur.ResultNames, n.Name)
					}
					if len(fl.Names) == 0 {
						cur.ResultNames = append(cur.ResultNames, "_")
					}
				}
			}
			sf.Funcs = append(sf.Funcs, cur)
			curLemma, curAudit, curMon = nil, nil, nil
		case "lemma":
			i := strings.Index(rest, ":")
			if i < 0 {
				return nil, fmt.Errorf("%s:%d: lemma needs name:", sf.Path, d.line)
			}
			c, err := mkClause(strings.TrimSpace(rest[i+1:]))
			if err != nil {
				return nil, err
			}
			curLemma = &Lemma{Name: strings.TrimSpace(rest[:i]), C: c}
			sf.Lemmas = append(sf.Lemmas, curLemma)
			cur, curAudit, curMon = nil, nil, nil
		case "end":
			cur, curLemma, curAudit, curMon = nil, nil, nil, nil
		case "audit":
			// audit initonly g1, g2, T.f: package-level variables (and struct fields) written by the package
			// initialiser only - no function of the package stores to them, updates the maps they hold or lets
			// them escape
			// audit calls <func or (recv).method> assert [tag] P: P (over arg0, arg1, ... - arg0 is the receiver of a
			// method) holds at EVERY call of that function anywhere in the package. One obligation per call site.
			// (`except <function>`: the calls made by that one function are not counted - it forwards its own
			// arguments and is itself under a calls-audit)
			if m := regexp.MustCompile(`^calls\s+(\S+)\s+(?:except\s+(\S+)\s+)?assert\s+(.*)$`).FindStringSubmatch(rest); m != nil {
				cl, err := mkClause(m[3])
				if err != nil {
					return nil, err
				}
				curAudit = &Audit{Kind: "calls", Callee: m[1], Except: m[2], Assert: cl, Line: d.line, File: sf.Path, Text: rest}
				sf.Audits = append(sf.Audits, curAudit)
				cur, curLemma, curMon = nil, nil, nil
				break
			}
			if strings.HasPrefix(rest, "initonly ") {
				// `initonly names except f1; f2`: the listed functions (separated by `;`) may write as well
				body, except := strings.TrimPrefix(rest, "initonly "), ""
				if i := strings.Index(body, " except "); i >= 0 {
					body, except = body[:i], strings.TrimSpace(body[i+len(" except "):])
				}
				curAudit = &Audit{Kind: "initonly", Names: splitTop(body), Except: except, Line: d.line, File: sf.Path, Text: rest}
				sf.Audits = append(sf.Audits, curAudit)
				cur, curLemma, curMon = nil, nil, nil
				break
			}
			// audit atomic <Type>.<field>
			f := strings.Fields(rest)
			if len(f) != 2 || f[0] != "atomic" || strings.Count(f[1], ".") != 1 {
				return nil, fmt.Errorf("%s:%d: bad audit directive %q", sf.Path, d.line, rest)
			}
			tf := strings.SplitN(f[1], ".", 2)
			curAudit = &Audit{Kind: "atomic", TypeName: tf[0], Field: tf[1], Line: d.line, File: sf.Path, Text: rest}
			sf.Audits = append(sf.Audits, curAudit)
			cur, curLemma, curMon = nil, nil, nil
		case "monitor":
			// monitor (r *T) mu
			m := regexp.MustCompile(`^\(\s*(\w+)\s+\*?(\w+)\s*\)\s+(\w+)$`).FindStringSubmatch(rest)
			if m == nil {
				return nil, fmt.Errorf("%s:%d: bad monitor directive %q", sf.Path, d.line, rest)
			}
			curMon = &Monitor{Recv: m[1], TypeName: m[2], MuField: m[3], Line: d.line, File: sf.Path}
			sf.Monitors = append(sf.Monitors, curMon)
			cur, curLemma, curAudit = nil, nil, nil
		default:
			if curMon != nil {
				switch kw {
				case "prop":
					curMon.Props = strings.Fields(rest)
				case "cond":
					curMon.CondFields = append(curMon.CondFields, splitTop(rest)...)
				case "protects":
					for _, part := range splitTop(rest) {
						e, err := ParseExpr(part)
						if err != nil {
							return nil, fmt.Errorf("%s:%d: %v", sf.Path, d.line, err)
						}
						curMon.Protects = append(curMon.Protects, e)
						curMon.ProtText = append(curMon.ProtText, part)
					}
				case "invariant":
					c, err := mkClause(rest)
					if err != nil {
						return nil, err
					}
					curMon.Invariants = append(curMon.Invariants, c)
				case "counter":
					curMon.Counters = append(curMon.Counters, splitTop(rest)...)
				case "holds":
					curMon.Holds = append(curMon.Holds, splitTop(rest)...)
				case "init":
					curMon.Inits = append(curMon.Inits, splitTop(rest)...)
				default:
					return nil, fmt.Errorf("%s:%d: directive %q not allowed in monitor", sf.Path, d.line, kw)
				}
				continue
			}
			if curAudit != nil {
				switch kw {
				case "prop":
					curAudit.Props = strings.Fields(rest)
				case "transitions":
					ts, err := parseTransitions(rest)
					if err != nil {
						return nil, fmt.Errorf("%s:%d: %v", sf.Path, d.line, err)
					}
					curAudit.Trans = append(curAudit.Trans, ts...)
				case "init-store":
					curAudit.InitStores = append(curAudit.InitStores, splitTop(rest)...)
				case "deltas":
					// the field is a counter: Add with one of the listed constants is the only write
					for _, part := range splitTop(rest) {
						v, err := strconv.ParseInt(strings.TrimPrefix(strings.TrimSpace(part), "+"), 0, 64)
						if err != nil {
							return nil, fmt.Errorf("%s:%d: bad delta %q", sf.Path, d.line, part)
						}
						curAudit.Deltas = append(curAudit.Deltas, v)
					}
				default:
					return nil, fmt.Errorf("%s:%d: directive %q not allowed in audit", sf.Path, d.line, kw)
				}
				continue
			}
			if curLemma != nil {
				switch kw {
				case "mode":
					curLemma.Mode = rest
				case "prop":
					curLemma.Props = strings.Fields(rest)
				default:
					return nil, fmt.Errorf("%s:%d: directive %q not allowed in lemma", sf.Path, d.line, kw)
				}
				continue
			}
			if cur == nil {
				return nil, fmt.Errorf("%s:%d: directive %q outside func block", sf.Path, d.line, kw)
			}
			switch kw {
			case "mode":
				cur.Mode = rest
			case "prop":
				cur.Props = strings.Fields(rest)
			case "requires":
				c, err := mkClause(rest)
				if err != nil {
					return nil, err
				}
				cur.Requires = append(cur.Requires, c)
			case "ensures":
				c, err := mkClause(rest)
				if err != nil {
					return nil, err
				}
				cur.Ensures = append(cur.Ensures, c)
			case "assume":
				c, err := mkClause(rest)
				if err != nil {
					return nil, err
				}
				cur.Assumes = append(cur.Assumes, c)
				sf.Assumes = append(sf.Assumes, fmt.Sprintf("%s: assume %s", cur.Key, rest))
			case "modifies":
				cur.HasMod = true
				if rest != "" && rest != "nothing" {
					for _, part := range splitTop(rest) {
						e, err := ParseExpr(part)
						if err != nil {
							return nil, fmt.Errorf("%s:%d: %v", sf.Path, d.line, err)
						}
						cur.Modifies = append(cur.Modifies, e)
						cur.ModText = append(cur.ModText, part)
					}
				}
			case "unfold":
				c, err := mkClause(rest)
				if err != nil {
					return nil, err
				}
				cur.Unfolds = append(cur.Unfolds, c)
			case "nopanic":
				cur.NoPanic = true
			case "allocbound":
				cur.AllocBound = true
			case "trusted":
				cur.Trusted = true
				sf.Assumes = append(sf.Assumes, fmt.Sprintf("%s: trusted contract (%s)", cur.Key, rest))
			case "abstract":
				if rest == "mul" {
					cur.AbstractMul = true
				} else if rest == "memconst" {
					cur.MemConst = true
				} else if rest == "lambdaframe" {
					cur.LambdaFrame = true
				} else if strings.HasPrefix(rest, "call ") {
					// abstract call f, g: calls of f and g are heap havocs in this function (their contracts are
					// neither relied on nor are their preconditions established here)
					if cur.AsHavoc == nil {
						cur.AsHavoc = map[string]bool{}
					}
					for _, n := range splitTop(strings.TrimPrefix(rest, "call ")) {
						cur.AsHavoc[strings.TrimSpace(n)] = true
					}
				} else {
					return nil, fmt.Errorf("%s:%d: unknown abstraction %q", sf.Path, d.line, rest)
				}
			case "pure":
				cur.Pure = true
			case "uses":
				// uses lemma1, lemma2: lemmas (proved on their own, possibly in the other arithmetic mode) that
				// this function's proof may rely on
				cur.UsesLemmas = append(cur.UsesLemmas, splitTop(rest)...)
			case "frozen":
				// frozen e1, e2: the named locations never change while the function runs (configuration that is
				// immutable after construction); they keep their value across every havoc. Listed as an assumption.
				for _, part := range splitTop(rest) {
					e, err := ParseExpr(part)
					if err != nil {
						return nil, fmt.Errorf("%s:%d: %v", sf.Path, d.line, err)
					}
					cur.Frozen = append(cur.Frozen, e)
				}
				sf.Assumes = append(sf.Assumes, fmt.Sprintf("%s: frozen (never written while the function runs): %s", cur.Key, rest))
			case "token":
				// token <counter> <n>: the calling thread owns n contributions to the monitor counter at entry
				// (a precondition on the caller's history; callers are not verified, so it is listed as an assumption)
				f := strings.Fields(rest)
				n, err := strconv.Atoi(f[len(f)-1])
				if len(f) != 2 || err != nil || n < 0 {
					return nil, fmt.Errorf("%s:%d: bad token directive %q", sf.Path, d.line, rest)
				}
				if cur.Tokens == nil {
					cur.Tokens = map[string]int{}
				}
				cur.Tokens[f[0]] = n
				sf.Assumes = append(sf.Assumes, fmt.Sprintf("%s: the calling thread owns %d %s contribution(s) at entry (caller protocol)", cur.Key, n, f[0]))
			case "loop":
				f := strings.Fields(rest)
				if len(f) < 3 {
					return nil, fmt.Errorf("%s:%d: bad loop directive", sf.Path, d.line)
				}
				k, err := strconv.Atoi(f[0])
				if err != nil {
					return nil, fmt.Errorf("%s:%d: bad loop ordinal", sf.Path, d.line)
				}
				ls := cur.Loops[k]
				if ls == nil {
					ls = &LoopSpec{}
					cur.Loops[k] = ls
				}
				body := strings.TrimSpace(strings.TrimPrefix(strings.TrimSpace(rest[len(f[0]):]), f[1]))
				switch f[1] {
				case "invariant":
					c, err := mkClause(body)
					if err != nil {
						return nil, err
					}
					ls.Invariants = append(ls.Invariants, c)
				case "unfold":
					// loop k unfold f(args): assume f(args) == body-of-f[args] at the loop head. This is the
					// definition of the (recursive) spec function, instantiated once: a hint, never an assumption
					// about the program.
					c, err := mkClause(body)
					if err != nil {
						return nil, err
					}
					ls.Unfolds = append(ls.Unfolds, c)
				case "exit":
					// loop k exit P: P holds on every edge that leaves loop k (normal exit, break, goto out of it;
					// not return). An obligation, in terms of the loop's variables at the moment of leaving.
					c, err := mkClause(body)
					if err != nil {
						return nil, err
					}
					ls.Exits = append(ls.Exits, c)
				case "backedge":
					// loop k backedge P: P holds whenever an iteration of loop k ends and the next one begins (every
					// back edge, including `continue`). With entered(j) / reached($f0) this states that no iteration
					// skips the inner loop j / the call: coverage of the iterated elements.
					c, err := mkClause(body)
					if err != nil {
						return nil, err
					}
					ls.Backs = append(ls.Backs, c)
				case "unroll":
					n, err := strconv.Atoi(body)
					if err != nil {
						return nil, fmt.Errorf("%s:%d: bad unroll", sf.Path, d.line)
					}
					ls.Unroll = n
				default:
					return nil, fmt.Errorf("%s:%d: unknown loop directive %q", sf.Path, d.line, f[1])
				}
			case "site":
				// site <selector> assert|assume P   /   site <selector> ghost inc c; dec d
				m := regexp.MustCompile(`^(.*?)\s+(assert|assume|ghost)\s+(.*)$`).FindStringSubmatch(rest)
				if m == nil {
					return nil, fmt.Errorf("%s:%d: bad site directive", sf.Path, d.line)
				}
				if m[2] == "ghost" {
					cur.Sites = append(cur.Sites, SiteSpec{Selector: strings.TrimSpace(m[1]), Kind: "ghost", C: Clause{Text: m[3], Line: d.line}})
					continue
				}
				c, err := mkClause(m[3])
				if err != nil {
					return nil, err
				}
				cur.Sites = append(cur.Sites, SiteSpec{Selector: strings.TrimSpace(m[1]), Kind: m[2], C: c})
				if m[2] == "assume" {
					sf.Assumes = append(sf.Assumes, fmt.Sprintf("%s: site %s assume %s", cur.Key, m[1], m[3]))
				}
			case "ghost":
				// ghost var name type = expr
				m := regexp.MustCompile(`^var\s+(\w+)\s+(\S+)\s*=\s*(.*)$`).FindStringSubmatch(rest)
				if m == nil {
					return nil, fmt.Errorf("%s:%d: bad ghost directive", sf.Path, d.line)
				}
				e, err := ParseExpr(m[3])
				if err != nil {
					return nil, fmt.Errorf("%s:%d: %v", sf.Path, d.line, err)
				}
				cur.Ghosts = append(cur.Ghosts, GhostVar{m[1], m[2], e})
			default:
				return nil, fmt.Errorf("%s:%d: unknown directive %q", sf.Path, d.line, kw)
			}
		}
	}
	return sf, nil
}

func stripComment(s string) string {
	// remove trailing " // ..." comments (not inside strings)
	in := false
	for i := 0; i+1 < len(s); i++ {
		if s[i] == '"' {
			in = !in
		}
		if !in && s[i] == '/' && s[i+1] == '/' {
			return strings.TrimSpace(s[:i])
		}
	}
	return s
}

func splitTop(s string) []string {
	var out []string
	depth, start := 0, 0
	for i, c := range s {
		switch c {
		case '(', '[':
			depth++
		case ')', ']':
			depth--
		case ',':
			if depth == 0 {
				out = append(out, strings.TrimSpace(s[start:i]))
				start = i + 1
			}
		}
	}
	out = append(out, strings.TrimSpace(s[start:]))
	return out
}

var specRe = regexp.MustCompile(`^(rec\s+)?(\w+)\(([^)]*)\)\s*([\w\[\]\.\*]+)\s*(?:=\s*(.*))?$`)

func parseSpecFn(s string, line int) (*SpecFn, error) {
	mode := ""
	if strings.HasPrefix(s, "bv ") {
		mode, s = "bv", s[3:]
	} else if strings.HasPrefix(s, "int ") {
		mode, s = "int", s[4:]
	}
	content := false
	if strings.HasPrefix(s, "content ") {
		content, s = true, s[8:]
	}
	m := specRe.FindStringSubmatch(s)
	if m == nil {
		return nil, fmt.Errorf("bad spec %q", s)
	}
	sp := &SpecFn{Name: m[2], Result: m[4], Text: s, Line: line, Rec: m[1] != "", Mode: mode, Content: content}
	if strings.TrimSpace(m[3]) != "" {
		// Go-like grouping: "a, b int, c []byte"
		parts := strings.Split(m[3], ",")
		var pend []string
		for _, p := range parts {
			f := strings.Fields(p)
			switch len(f) {
			case 1:
				pend = append(pend, f[0])
			case 2:
				for _, n := range pend {
					sp.Params = append(sp.Params, SpecParam{n, f[1]})
				}
				pend = nil
				sp.Params = append(sp.Params, SpecParam{f[0], f[1]})
			default:
				return nil, fmt.Errorf("bad spec params %q", m[3])
			}
		}
		if len(pend) > 0 {
			return nil, fmt.Errorf("spec param without type in %q", m[3])
		}
	}
	if content && m[5] != "" {
		return nil, fmt.Errorf("spec content %s: a content function has no body", sp.Name)
	}
	if m[5] != "" {
		e, err := ParseExpr(m[5])
		if err != nil {
			return nil, err
		}
		sp.Body = e
	}
	return sp, nil
}

func declKey(fd *ast.FuncDecl) string {
	if fd.Recv == nil || len(fd.Recv.List) == 0 {
		return fd.Name.Name
	}
	return "(" + types.ExprString(fd.Recv.List[0].Type) + ")." + fd.Name.Name
}

func sortedKeys[V any](m map[int]V) []int {
	var ks []int
	for k := range m {
		ks = append(ks, k)
	}
	sort.Ints(ks)
	return ks
}
