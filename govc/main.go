package main

import (
	"encoding/json"
	"flag"
	"fmt"
	"go/ast"
	"go/types"
	"math/rand"
	"os"
	"path/filepath"
	"regexp"
	"sort"
	"strings"
	"time"

	"golang.org/x/tools/go/ssa"
)

// synthContract: the contract of the zero-annotation sweep (nopanic, nothing else).
func synthContract(fn *ssa.Function, prop string) *FuncContract {
	fc := &FuncContract{Key: fn.RelString(fn.Pkg.Pkg), NoPanic: true, AllocBound: true, Props: []string{prop}, Loops: map[int]*LoopSpec{},
		Decl: &ast.FuncDecl{Name: ast.NewIdent(fn.Name()), Type: &ast.FuncType{Params: &ast.FieldList{}}}, Synth: true}
	start := 0
	if fn.Signature.Recv() != nil {
		start = 1
		fc.Decl.Recv = &ast.FieldList{List: []*ast.Field{{Names: []*ast.Ident{ast.NewIdent(fn.Params[0].Name())}}}}
	}
	for _, p := range fn.Params[start:] {
		fc.ParamNames = append(fc.ParamNames, p.Name())
	}
	for i := 0; i < fn.Signature.Results().Len(); i++ {
		fc.ResultNames = append(fc.ResultNames, "_")
	}
	return fc
}

type multiFlag []string

func (m *multiFlag) String() string     { return strings.Join(*m, ",") }
func (m *multiFlag) Set(s string) error { *m = append(*m, s); return nil }

// RunReport is the machine-readable output of one govc run, consumed by the check driver.
type RunReport struct {
	Prop        string         `json:"prop"`
	Functions   []string       `json:"functions_under_contract"`
	Obligations []OblReport    `json:"obligations"`
	Errors      []string       `json:"errors"`
	Havocs      map[string][]string `json:"havoc_points"`
	Notes       []string       `json:"notes"`
	Assumes     []string       `json:"assumes"`
	Stdlib      []string       `json:"stdlib_contracts_used"`
	Contracts   []string       `json:"callee_contracts_used"`
	Trusted     []string       `json:"trusted_contracts"`
	WallS       float64        `json:"wall_s"`
	SolverMs    int64          `json:"solver_ms"`
	Swept       int            `json:"swept_functions"`
}

type OblReport struct {
	Name   string            `json:"name"`
	Kind   string            `json:"kind"`
	Text   string            `json:"text"`
	Status string            `json:"status"`
	Solver string            `json:"solver"`
	Ms     int64             `json:"ms"`
	Tried  []string          `json:"tried,omitempty"`
	Model  map[string]string `json:"model,omitempty"`
	Output string            `json:"output,omitempty"`
	File   string            `json:"smt_file,omitempty"`
	Cover  bool              `json:"cover,omitempty"`
	Fn     string            `json:"fn"`
	Params []ParamReport     `json:"params,omitempty"`
	ReplaySrc   string       `json:"replay_src,omitempty"`
	ReplayDir   string       `json:"replay_dir,omitempty"`
	ReplayNotes []string     `json:"replay_notes,omitempty"`
	Results     []ResultTerm `json:"result_terms,omitempty"`
	Synth       bool         `json:"synth,omitempty"`
	Soft        bool         `json:"soft,omitempty"`
}

type ParamReport struct {
	Name string `json:"name"`
	Type string `json:"type"`
	Term string `json:"term"`
}

func main() {
	var loads, overlays multiFlag
	flag.Var(&loads, "load", "dir:pattern[,pattern] (repeatable)")
	flag.Var(&overlays, "overlay", "path=replacement (repeatable)")
	prop := flag.String("prop", "", "property id: only contracts tagged with it")
	funcs := flag.String("funcs", "", "regexp on function names")
	out := flag.String("out", "", "report json path")
	smtdir := flag.String("smtdir", "", "directory for SMT files")
	timeout := flag.Int("timeout", 10, "per-solver timeout (s)")
	all := flag.Bool("all-solvers", false, "run every solver on every obligation and require agreement")
	jobs := flag.Int("j", 16, "parallel solver jobs")
	dump := flag.Bool("dump", false, "print obligations")
	sweep := flag.String("sweep", "", "regexp: functions without a contract that get a synthesized `nopanic` contract")
	sweepN := flag.Int("sweep-n", 0, "sample size for -sweep (0 = all)")
	seed := flag.Int64("seed", 0, "seed for sampling")
	list := flag.String("list", "", "regexp: list matching functions (and function literals) with their source positions, then exit")
	flag.Parse()
	t0 := time.Now()
	ov := map[string][]byte{}
	for _, o := range overlays {
		kv := strings.SplitN(o, "=", 2)
		b, err := os.ReadFile(kv[1])
		if err != nil {
			fatal(err)
		}
		ov[kv[0]] = b
	}
	var re *regexp.Regexp
	if *funcs != "" {
		re = regexp.MustCompile(*funcs)
	}
	rep := &RunReport{Prop: *prop, Havocs: map[string][]string{}}
	var obls []*Obligation
	stdlib := map[string]bool{}
	used := map[string]bool{}
	for _, l := range loads {
		kv := strings.SplitN(l, ":", 2)
		p, err := Load(LoadSpec{Dir: kv[0], Patterns: strings.Split(kv[1], ","), Overlay: ov})
		if err != nil {
			rep.Errors = append(rep.Errors, "load "+l+": "+err.Error())
			continue
		}
		rep.Errors = append(rep.Errors, p.errs...)
		for _, sf := range p.files {
			rep.Assumes = append(rep.Assumes, sf.Assumes...)
		}
		fns := p.sortedContracts()
		if *list != "" {
			// -list re: names and positions of the functions (closures included) whose name matches: how a
			// contract author finds go/ssa's numbering of function literals
			lre := regexp.MustCompile(*list)
			var names []string
			for _, fn := range p.byKey {
				if lre.MatchString(qualName(fn)) {
					names = append(names, fmt.Sprintf("%s\t%s", qualName(fn), fn.Prog.Fset.Position(fn.Pos())))
				}
			}
			sort.Strings(names)
			for _, n := range names {
				fmt.Println(n)
			}
			continue
		}
		if *sweep != "" {
			// zero-annotation sweep: every matching function without a contract gets `nopanic` only
			sre := regexp.MustCompile(*sweep)
			var extra []*ssa.Function
			for _, fn := range p.byKey {
				if p.contracts[fn] != nil || len(fn.Blocks) == 0 || !sre.MatchString(qualName(fn)) {
					continue
				}
				p.contracts[fn] = synthContract(fn, *prop)
				extra = append(extra, fn)
			}
			sort.Slice(extra, func(i, j int) bool { return extra[i].String() < extra[j].String() })
			if *sweepN > 0 && len(extra) > *sweepN {
				// deterministic sample driven by the seed
				rng := rand.New(rand.NewSource(*seed))
				rng.Shuffle(len(extra), func(i, j int) { extra[i], extra[j] = extra[j], extra[i] })
				for _, fn := range extra[*sweepN:] {
					delete(p.contracts, fn)
				}
				extra = extra[:*sweepN]
				sort.Slice(extra, func(i, j int) bool { return extra[i].String() < extra[j].String() })
			}
			rep.Swept = len(extra)
			fns = p.sortedContracts()
		}
		// a generic function is verified once per instantiation reachable in the program (concrete types);
		// the contract stays attached to the generic origin
		var expanded []*ssa.Function
		instOf := map[*ssa.Function]*ssa.Function{}
		for _, fn := range fns {
			if fn.TypeParams().Len() > 0 && len(p.insts[fn]) > 0 {
				is := append([]*ssa.Function(nil), p.insts[fn]...)
				sort.Slice(is, func(i, j int) bool { return is[i].String() < is[j].String() })
				for _, in := range is {
					instOf[in] = fn
					expanded = append(expanded, in)
				}
				continue
			}
			expanded = append(expanded, fn)
		}
		for _, fn := range expanded {
			fc := p.contracts[fn]
			if o := instOf[fn]; o != nil {
				fc = p.contracts[o]
			}
			if *prop != "" && !contains(fc.Props, *prop) {
				continue
			}
			name := qualName(fn)
			if re != nil && !re.MatchString(name) {
				continue
			}
			if fc.Trusted {
				rep.Trusted = append(rep.Trusted, name)
				continue
			}
			rep.Functions = append(rep.Functions, name)
			modes := modesOf(fc)
			for mi, mode := range modes {
			enc := p.Verify(fn, fc, mode, mi == 0, len(modes) > 1, nil, nil)
			enc = p.Verify(fn, fc, mode, mi == 0, len(modes) > 1, enc.c.memSorts, enc.sortedOrdLog())
			for _, e := range enc.errs {
				rep.Errors = append(rep.Errors, name+": "+e)
			}
			if len(enc.havocs) > 0 {
				rep.Havocs[name] = dedup(enc.havocs)
			}
			for _, n := range enc.notes {
				rep.Notes = append(rep.Notes, name+": "+n)
			}
			for n := range enc.c.notes {
				rep.Notes = append(rep.Notes, name+": "+n)
			}
			for k := range enc.usedStdlib {
				stdlib[k] = true
			}
			for k := range enc.usedContracts {
				used[k] = true
			}
			if fc != nil {
				for _, s := range fc.Sites {
					if !enc.siteHit[s.Selector] {
						rep.Errors = append(rep.Errors, fmt.Sprintf("%s: site %q does not resolve", name, s.Selector))
					}
				}
			}
			obls = append(obls, enc.obls...)
			}
		}
		if re == nil || re.MatchString("audit") {
			ao, aerrs := p.runAudits(*prop)
			obls = append(obls, ao...)
			rep.Errors = append(rep.Errors, aerrs...)
			for _, ar := range p.audits {
				if *prop == "" || contains(ar.a.Props, *prop) {
					rep.Functions = append(rep.Functions, "audit atomic "+ar.a.TypeName+"."+ar.a.Field+" (every function of "+ar.pkg.Pkg.Name()+")")
				}
			}
			mo, merrs := p.runMonitorAudits(*prop)
			obls = append(obls, mo...)
			rep.Errors = append(rep.Errors, merrs...)
			for _, mr := range p.monitors {
				if *prop == "" || contains(mr.m.Props, *prop) {
					rep.Functions = append(rep.Functions, "lockset audit of monitor "+mr.m.TypeName+"."+mr.m.MuField+" (every function of "+mr.pkg.Pkg.Name()+")")
				}
			}
		}
		for _, lr := range p.lemmas {
			if *prop != "" && !contains(lr.l.Props, *prop) {
				continue
			}
			if re != nil && !re.MatchString("lemma "+lr.l.Name) {
				continue
			}
			o, err := p.lemmaObligation(lr)
			if err != nil {
				rep.Errors = append(rep.Errors, fmt.Sprintf("lemma %s: %v", lr.l.Name, err))
				continue
			}
			rep.Functions = append(rep.Functions, "lemma "+lr.l.Name)
			obls = append(obls, o)
		}
	}
	dir := *smtdir
	if dir == "" {
		d, err := os.MkdirTemp("", "govc-smt-")
		if err != nil {
			fatal(err)
		}
		dir = d
		defer os.RemoveAll(d)
	} else {
		os.MkdirAll(dir, 0o755)
	}
	results := Solve(obls, dir, *timeout, *all, *jobs)
	for _, r := range results {
		or := OblReport{Name: r.O.Name, Kind: r.O.Kind, Text: r.O.Text, Status: r.Status, Solver: r.Solver, Ms: r.Ms, Tried: r.Tried, Cover: r.O.IsCover, Fn: r.O.Fn, Synth: r.O.Synth, Soft: r.O.Soft}
		rep.SolverMs += r.Ms
		bad := (!r.O.IsCover && r.Status != "unsat") || (r.O.IsCover && !r.O.Soft && r.Status == "unsat") || (r.Status == "error" && !r.O.Soft)
		if bad {
			or.Model = r.Model
			if len(r.Output) > 4000 {
				or.Output = r.Output[:4000]
			} else {
				or.Output = r.Output
			}
			if *smtdir != "" {
				or.File = r.File
			}
			for _, m := range r.O.Model {
				or.Params = append(or.Params, ParamReport{m.Name, types.TypeString(m.Type, nil), m.Term})
			}
			or.Results = r.O.Results
			if r.Status == "sat" && r.O.ssaFn != nil && !r.O.IsCover {
				src, notes, ok := ReplayTest(r.O.ssaFn, r.O, r.Model)
				or.ReplayNotes = notes
				if ok {
					or.ReplaySrc = src
					if f := r.O.ssaFn.Prog.Fset.File(r.O.ssaFn.Pos()); f != nil {
						or.ReplayDir = filepath.Dir(f.Name())
					}
				}
			}
		}
		rep.Obligations = append(rep.Obligations, or)
		if *dump || bad {
			fmt.Printf("%-8s %-70s %s %dms  %s\n", r.Status, r.O.Name, r.Solver, r.Ms, trunc(r.O.Text, 90))
		}
	}
	for k := range stdlib {
		rep.Stdlib = append(rep.Stdlib, k)
	}
	for k := range used {
		rep.Contracts = append(rep.Contracts, k)
	}
	sort.Strings(rep.Stdlib)
	sort.Strings(rep.Contracts)
	sort.Strings(rep.Notes)
	rep.Notes = dedup(rep.Notes)
	rep.WallS = time.Since(t0).Seconds()
	for _, e := range rep.Errors {
		fmt.Println("ERROR", e)
	}
	if *dump {
		for fn, hs := range rep.Havocs {
			for _, h := range hs {
				fmt.Println("HAVOC", fn, ":", h)
			}
		}
		for _, n := range rep.Notes {
			fmt.Println("NOTE", n)
		}
	}
	n, ok := 0, 0
	for _, o := range rep.Obligations {
		if o.Cover {
			continue
		}
		n++
		if o.Status == "unsat" {
			ok++
		}
	}
	fmt.Printf("govc: %d functions, %d/%d obligations discharged, %d errors, %.1fs\n", len(rep.Functions), ok, n, len(rep.Errors), rep.WallS)
	if *out != "" {
		b, _ := json.MarshalIndent(rep, "", " ")
		os.WriteFile(*out, b, 0o644)
	}
}

func trunc(s string, n int) string {
	if len(s) > n {
		return s[:n] + "…"
	}
	return s
}

func contains(xs []string, x string) bool {
	for _, y := range xs {
		if y == x {
			return true
		}
	}
	return false
}

func dedup(xs []string) []string {
	seen := map[string]bool{}
	var out []string
	for _, x := range xs {
		if !seen[x] {
			seen[x] = true
			out = append(out, x)
		}
	}
	return out
}

func fatal(err error) {
	fmt.Fprintln(os.Stderr, "govc:", err)
	os.Exit(2)
}

// lemmaObligation turns a closed lemma into an obligation over an arbitrary memory.
func (p *Program) lemmaObligation(lr *lemmaRef) (*Obligation, error) {
	mode := ModeInt
	if lr.l.Mode == "bv" {
		mode = ModeBV
	}
	c := NewCtx(mode, p.specs)
	st := &State{mem: map[string]string{}, epoch: "0", ctr: "ctr0"}
	c.declare("ctr0", "Int")
	env := &Env{c: c, pkg: lr.pkg, vars: map[string]Val{}, mem: st.memFn(c)}
	s, err := env.ElabBool(lr.l.C.E)
	if err != nil {
		return nil, err
	}
	return &Obligation{Name: "lemma " + lr.l.Name, Fn: "lemma " + lr.l.Name, Kind: "lemma", Text: lr.l.C.Text, Props: lr.l.Props, ctx: c, pos: 0, pc: "true", goal: s}, nil
}
