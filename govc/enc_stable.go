package main

// Stable captured locals.
//
// A heap-allocated local variable (an ssa.Alloc with Heap set because a closure captures it) is wiped by
// every heap havoc (a call without contract, an interface call ...). That is needlessly coarse for a
// variable whose address never leaves the function except as a closure binding and which no closure ever
// writes: no callee can change it, whatever it does, because the only code holding its address is the
// function itself and closures that merely read it. Such cells keep their value across call havocs.

import (
	"go/types"

	"golang.org/x/tools/go/ssa"
)

// stableAlloc: al's address is used only as the address of loads/stores of this function, in debug refs and
// as a binding of closures that (transitively) only read it.
func stableAlloc(al *ssa.Alloc) bool {
	if al.Referrers() == nil {
		return false
	}
	for _, r := range *al.Referrers() {
		switch r := r.(type) {
		case *ssa.Store:
			if r.Val == ssa.Value(al) {
				return false // the address itself is stored somewhere
			}
		case *ssa.UnOp, *ssa.DebugRef:
		case *ssa.MakeClosure:
			fn, ok := r.Fn.(*ssa.Function)
			if !ok {
				return false
			}
			for i, b := range r.Bindings {
				if b == ssa.Value(al) {
					if i >= len(fn.FreeVars) || !readOnlyFreeVar(fn.FreeVars[i], 0) {
						return false
					}
				}
			}
		default:
			return false
		}
	}
	return true
}

// localOnlyAlloc: a non-escaping struct/scalar local whose address (and the addresses of its fields) is used only
// for loads and stores in this function - never passed to a call, stored, or sliced.
func localOnlyAlloc(al *ssa.Alloc) bool {
	pt, ok := al.Type().Underlying().(*types.Pointer)
	if !ok {
		return false
	}
	switch u := pt.Elem().Underlying().(type) {
	case *types.Array:
		return false // arrays live in the two-level memory
	// (a cell holding a slice header, map, channel, function or interface value is kept like any other: what it
	// refers to is still havocked, the non-escaping cell itself cannot be written by anyone else)
	case *types.Struct:
		if u.NumFields() > 24 {
			return false
		}
	}
	var ok2 func(v ssa.Value, depth int) bool
	ok2 = func(v ssa.Value, depth int) bool {
		if depth > 6 || v.Referrers() == nil {
			return false
		}
		for _, r := range *v.Referrers() {
			switch r := r.(type) {
			case *ssa.Store:
				if r.Val == v {
					return false
				}
			case *ssa.UnOp, *ssa.DebugRef:
			case *ssa.FieldAddr:
				if !ok2(r, depth+1) {
					return false
				}
			default:
				return false
			}
		}
		return true
	}
	return ok2(al, 0)
}

func readOnlyFreeVar(fv *ssa.FreeVar, depth int) bool {
	if depth > 8 || fv.Referrers() == nil {
		return false
	}
	for _, r := range *fv.Referrers() {
		switch r := r.(type) {
		case *ssa.UnOp, *ssa.DebugRef:
		case *ssa.MakeClosure:
			fn, ok := r.Fn.(*ssa.Function)
			if !ok {
				return false
			}
			for i, b := range r.Bindings {
				if b == ssa.Value(fv) {
					if i >= len(fn.FreeVars) || !readOnlyFreeVar(fn.FreeVars[i], depth+1) {
						return false
					}
				}
			}
		default:
			return false // a store through it, or the address escapes
		}
	}
	return true
}

// stableCells lists the already-allocated stable locals, optionally excluding those stored to in blocks.
func (e *Encoder) stableCells(exclude map[*ssa.BasicBlock]bool) []*ssa.Alloc {
	if e.stable == nil {
		e.stable = map[*ssa.Alloc]bool{}
		for _, b := range e.fn.Blocks {
			for _, in := range b.Instrs {
				al, ok := in.(*ssa.Alloc)
				if !ok {
					continue
				}
				if al.Heap && stableAlloc(al) {
					e.stable[al] = true
				}
				// a stack variable (go/ssa: its address does not escape the function) that is only accessed through
				// its own field addresses cannot be changed by any callee either
				if !al.Heap && localOnlyAlloc(al) {
					e.stable[al] = true
				}
			}
		}
	}
	var out []*ssa.Alloc
	for _, b := range e.fn.Blocks { // deterministic order
		for _, in := range b.Instrs {
			al, ok := in.(*ssa.Alloc)
			if !ok || !e.stable[al] {
				continue
			}
			if _, done := e.vals[al]; !done {
				continue
			}
			written := false
			if exclude != nil {
				for _, r := range *al.Referrers() {
					if s, ok := r.(*ssa.Store); ok && exclude[s.Block()] {
						written = true
					}
				}
			}
			if !written {
				out = append(out, al)
			}
		}
	}
	return out
}

// havocKeeping havocs the whole heap except the stable captured locals (see above).
func (e *Encoder) havocKeeping(st *State, why string, exclude map[*ssa.BasicBlock]bool) {
	type kept struct {
		al *ssa.Alloc
		v  Val
	}
	var ks []kept
	for _, al := range e.stableCells(exclude) {
		pt, ok := al.Type().Underlying().(*types.Pointer)
		if !ok {
			continue
		}
		switch pt.Elem().Underlying().(type) {
		case *types.Array:
			continue // arrays live in the two-level memory; not kept
		}
		ks = append(ks, kept{al, e.load(st, e.vals[al].S, pt.Elem())})
	}
	// captured variables of a closure that nobody ever reassigns (one initialising store in the enclosing
	// function, every capturing closure only reads them) keep their value as well
	type keptFV struct {
		fv *ssa.FreeVar
		v  Val
	}
	var kfs []keptFV
	for _, fv := range e.fn.FreeVars {
		pt, ok := fv.Type().Underlying().(*types.Pointer)
		if !ok || !immutableFreeVar(e.fn, fv) {
			continue
		}
		switch pt.Elem().Underlying().(type) {
		case *types.Array:
			continue
		}
		kfs = append(kfs, keptFV{fv, e.load(st, e.val(fv).S, pt.Elem())})
	}
	// the state protected by the monitors this thread holds cannot be changed by a callee or another thread
	// (not at a loop head: there the havoc stands for arbitrarily many iterations, which may wait and update ghosts)
	restore := func() {}
	if exclude == nil {
		restore = e.saveHeldState(st)
	} else if !e.loopWaitsBlocks(exclude) {
		restore = e.saveTokens(st) // ghost actions inside loops are rejected, so tokens survive a loop that does not wait
	}
	// locations the contract declares frozen (immutable configuration)
	type keptLoc struct {
		loc string
		t   types.Type
		v   string
	}
	var kls []keptLoc
	for _, f := range e.frozen {
		kls = append(kls, keptLoc{f.loc, f.t, e.load(st, f.loc, f.t).S})
	}
	defer func() {
		for _, k := range kls {
			e.store(st, k.loc, k.t, k.v)
		}
	}()
	e.havocRaw(st, why)
	for _, k := range ks {
		pt := k.al.Type().Underlying().(*types.Pointer)
		e.store(st, e.vals[k.al].S, pt.Elem(), k.v.S)
	}
	for _, k := range kfs {
		pt := k.fv.Type().Underlying().(*types.Pointer)
		e.store(st, e.val(k.fv).S, pt.Elem(), k.v.S)
	}
	restore()
}

// immutableFreeVar: the captured variable has exactly one store in the function that declares it (its
// initialisation) and every closure that captures it only reads it.
func immutableFreeVar(fn *ssa.Function, fv *ssa.FreeVar) bool {
	idx := -1
	for i, f := range fn.FreeVars {
		if f == fv {
			idx = i
		}
	}
	parent := fn.Parent()
	if idx < 0 || parent == nil || !readOnlyFreeVar(fv, 0) {
		return false
	}
	for _, b := range parent.Blocks {
		for _, in := range b.Instrs {
			mc, ok := in.(*ssa.MakeClosure)
			if !ok || mc.Fn != ssa.Value(fn) || idx >= len(mc.Bindings) {
				continue
			}
			switch bv := mc.Bindings[idx].(type) {
			case *ssa.Alloc:
				return singleStoreAlloc(bv)
			case *ssa.FreeVar:
				return immutableFreeVar(parent, bv)
			}
			return false
		}
	}
	return false
}

// singleStoreAlloc: the variable is assigned exactly once in its function and closures only read it.
func singleStoreAlloc(al *ssa.Alloc) bool {
	if al.Referrers() == nil || !stableAlloc(al) {
		return false
	}
	stores := 0
	for _, r := range *al.Referrers() {
		if s, ok := r.(*ssa.Store); ok && s.Addr == ssa.Value(al) {
			stores++
		}
	}
	return stores <= 1
}

// containsByValue: a value of type outer holds a value of type inner inside its own memory (is it, or has it as a
// field / array element at any depth). Pointers, slices, maps and interfaces refer to other objects and do not count.
func containsByValue(outer, inner types.Type, depth int) bool {
	if depth > 8 {
		return true // unknown: be conservative
	}
	if types.Identical(outer, inner) {
		return true
	}
	switch u := outer.Underlying().(type) {
	case *types.Struct:
		for i := 0; i < u.NumFields(); i++ {
			if containsByValue(u.Field(i).Type(), inner, depth+1) {
				return true
			}
		}
	case *types.Array:
		return containsByValue(u.Elem(), inner, depth+1)
	}
	return false
}
