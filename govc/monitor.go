package main

// Monitor invariants: state guarded by a mutex.
//
//   //@ monitor (r *ring) mu
//   //@   prop C30
//   //@   cond cond
//   //@   protects r.elems, r.head, r.l, r.dead, elems(r.elems[:cap(r.elems)])
//   //@   invariant wf(r)
//   //@   holds (*ring).resize          // called with the lock held (checked at its call sites by the audit)
//   //@   init  (*ring).initMaxLen      // runs before the object is shared
//
// Discipline, applied to every function under contract that locks the mutex:
//   * X.mu.Lock():   the protected locations of X are havoc'd (any other thread may have changed them
//                    while the lock was free), then the invariant is ASSUMED; this point starts a critical
//                    section (atcrit(e) evaluates e in the memory of the start of the current section);
//   * X.mu.Unlock() (also when deferred): the invariant is an OBLIGATION;
//   * X.cond.Wait(): obligation (the lock is released), havoc, assume (it is re-acquired), new section;
//     the head of a loop whose body waits is the start of a section as well (it is reached either directly
//     after Lock or after a Wait);
//   * Signal/Broadcast have no effect on the state.
// Result: the invariant holds whenever the mutex is free, for ALL schedules, provided (a) sync.Mutex is a
// mutex, (b) every access to a protected field happens with the lock held - the package-wide lockset audit
// below checks (b) syntactically on every run (dominance by a Lock of the same receiver, no earlier explicit
// Unlock), with the listed exceptions, and (c) every function of the package that locks the mutex is under
// contract for the monitor's property (also checked by the audit), so that its unlock obligations exist.
// What a contract says about a critical section (postconditions over atcrit) is then a statement about an
// atomic step of the object: operations on it are linearisable at their critical sections.

import (
	"fmt"
	"go/token"
	"go/types"
	"math/big"
	"sort"
	"strings"

	"golang.org/x/tools/go/ssa"
	"golang.org/x/tools/go/ssa/ssautil"
)

type Monitor struct {
	Recv       string
	TypeName   string
	MuField    string
	CondFields []string
	Props      []string
	Protects   []Expr
	ProtText   []string
	Invariants []Clause
	Holds      []string // functions that run with the lock held by their caller
	Inits      []string // functions that run before the object is shared
	// Counters: ghost counters of the monitored object with thread-local tokens. `total` is a ghost field of the
	// object (protected by the mutex, named by the counter's name in invariants); every thread has its own
	// contribution mine(<name>) >= 0. `inc` adds one to both, `dec` requires mine >= 1 and subtracts one from
	// both, so total is the sum of all threads' contributions and total >= mine holds for every thread at all
	// times - which is what is assumed after each havoc of the protected state (other threads can only
	// remove their own contributions).
	Counters []string
	Line       int
	File       string
}

type monitorRef struct {
	m   *Monitor
	pkg *ssa.Package
}

func namedOfPtr(t types.Type) *types.Named {
	pt, ok := t.Underlying().(*types.Pointer)
	if !ok {
		return nil
	}
	nt, _ := pt.Elem().(*types.Named)
	return nt
}

// monitorOfField: the monitor whose mutex (or one of whose condition variables) is field fa.
func (p *Program) monitorOfField(fa *ssa.FieldAddr, wantCond bool) *monitorRef {
	if fa == nil {
		return nil
	}
	nt := namedOfPtr(fa.X.Type())
	if nt == nil {
		return nil
	}
	st, ok := nt.Underlying().(*types.Struct)
	if !ok {
		return nil
	}
	fname := st.Field(fa.Field).Name()
	for _, mr := range p.monitors {
		if nt.Obj().Name() != mr.m.TypeName || nt.Obj().Pkg() != mr.pkg.Pkg {
			continue
		}
		if !wantCond && fname == mr.m.MuField {
			return mr
		}
		if wantCond && contains(mr.m.CondFields, fname) {
			return mr
		}
	}
	return nil
}

// condOwner: for a call (*sync.Cond).Wait(c) where c was loaded from X.<condfield>, the monitor and X.
func (p *Program) condOwner(v ssa.Value) (*monitorRef, ssa.Value) {
	u, ok := v.(*ssa.UnOp)
	if !ok {
		return nil, nil
	}
	fa, ok := u.X.(*ssa.FieldAddr)
	if !ok {
		return nil, nil
	}
	if mr := p.monitorOfField(fa, true); mr != nil {
		return mr, fa.X
	}
	return nil, nil
}

const ghostCtrKey = "ghostctr"

var bigOne = big.NewInt(1)

func (e *Encoder) ctrSort() string { return fmt.Sprintf("(Array Loc %s)", e.c.sortOf(types.Typ[types.Uint64])) }

func (m *Monitor) ctrIndex(name string) int {
	for i, n := range m.Counters {
		if n == name {
			return i
		}
	}
	return -1
}

func ctrLoc(recv Val, idx int) string { return fmt.Sprintf("(lfield %s %d)", recv.S, 900000+idx) }

func (e *Encoder) ctrTotal(st *State, recv Val, idx int) string {
	e.c.memSorts[ghostCtrKey] = e.ctrSort()
	return fmt.Sprintf("(select %s %s)", st.get(e.c, ghostCtrKey, e.ctrSort()), ctrLoc(recv, idx))
}

func (e *Encoder) setCtrTotal(st *State, recv Val, idx int, v string) {
	cur := st.get(e.c, ghostCtrKey, e.ctrSort())
	e.c.memSorts[ghostCtrKey] = e.ctrSort()
	st.mem[ghostCtrKey] = e.c.define("M_"+ghostCtrKey, e.ctrSort(), fmt.Sprintf("(store %s %s %s)", cur, ctrLoc(recv, idx), v))
}

func tokKey(name string) string { return "tok." + name }

func (e *Encoder) token(st *State, name string) string {
	srt := e.c.sortOf(types.Typ[types.Uint64])
	e.c.memSorts[tokKey(name)] = srt
	return st.get(e.c, tokKey(name), srt)
}

func (e *Encoder) setToken(st *State, name, v string) {
	srt := e.c.sortOf(types.Typ[types.Uint64])
	e.c.memSorts[tokKey(name)] = srt
	st.mem[tokKey(name)] = e.c.define("tok_"+name, srt, v)
}

type heldMonitor struct {
	mr   *monitorRef
	recv Val
}

type lockSite struct {
	in   ssa.Instruction
	mr   *monitorRef
	recv Val
}

// before: instruction a is executed before position (blk, pos) on every path (dominance).
func instrBefore(a ssa.Instruction, blk *ssa.BasicBlock, pos int) bool {
	if a.Block() == blk {
		for i, in := range blk.Instrs {
			if in == a {
				return i < pos
			}
		}
		return false
	}
	return a.Block().Dominates(blk)
}

// refreshHeld recomputes the monitors held at position (blk, pos): those whose Lock dominates the position
// and is not followed by an explicit (non-deferred) Unlock that dominates the position as well. Deferred
// unlocks release at function exit only. (Blocks are encoded in an order that respects dominance but not
// program order between a loop's body and its exit, so this cannot be tracked by a running list.)
func (e *Encoder) refreshHeld(blk *ssa.BasicBlock, pos int) {
	e.held = e.held[:0]
	for _, l := range e.lockSites {
		if !instrBefore(l.in, blk, pos) {
			continue
		}
		released := false
		for _, u := range e.unlockSites {
			if u.mr == l.mr && u.recv.S == l.recv.S && instrBefore(u.in, blk, pos) {
				if instrBefore(l.in, u.in.Block(), indexOf(u.in)) {
					released = true
				}
			}
		}
		if !released {
			e.held = append(e.held, heldMonitor{l.mr, l.recv})
		}
	}
}

func indexOf(in ssa.Instruction) int {
	for i, x := range in.Block().Instrs {
		if x == in {
			return i
		}
	}
	return -1
}

func (e *Encoder) monitorEnv(mr *monitorRef, recv Val, st *State) *Env {
	env := e.envAt(st, e.curBlk, nil)
	env.pkg = mr.pkg.Pkg
	env.vars[mr.m.Recv] = recv
	for i, n := range mr.m.Counters {
		env.vars[n] = Val{T: types.Typ[types.Uint64], S: e.ctrTotal(st, recv, i)}
	}
	return env
}

// ghostAction executes `inc <counter>` / `dec <counter>` (separated by ';') for the innermost held monitor
// that declares the counter.
func (e *Encoder) ghostAction(text string, st *State, pc string) {
	u64 := types.Typ[types.Uint64]
	c := e.c
	one := c.lit(u64, bigOne)
	for _, li := range e.loops {
		if li.body[e.curBlk] {
			e.errs = append(e.errs, fmt.Sprintf("ghost action %q inside a loop is not supported (tokens are assumed unchanged by loops)", text))
			return
		}
	}
	for _, act := range strings.Split(text, ";") {
		f := strings.Fields(act)
		if len(f) == 0 {
			continue
		}
		if len(f) != 2 || (f[0] != "inc" && f[0] != "dec") {
			e.errs = append(e.errs, fmt.Sprintf("ghost action %q: expected `inc <counter>` or `dec <counter>`", act))
			continue
		}
		var hm *heldMonitor
		idx := -1
		for i := len(e.held) - 1; i >= 0; i-- {
			if k := e.held[i].mr.m.ctrIndex(f[1]); k >= 0 {
				hm, idx = &e.held[i], k
				break
			}
		}
		if hm == nil {
			e.errs = append(e.errs, fmt.Sprintf("ghost action %q: no held monitor declares counter %s", act, f[1]))
			continue
		}
		tot, tok := e.ctrTotal(st, hm.recv, idx), e.token(st, f[1])
		if f[0] == "inc" {
			// (no wrap: fewer than 2^63 threads exist)
			c.assume(implies(pc, c.cmp("<", u64, tot, c.lit(u64, pow2(62)))))
			e.setCtrTotal(st, hm.recv, idx, c.binop("+", u64, tot, one, u64))
			e.setToken(st, f[1], c.binop("+", u64, tok, one, u64))
		} else {
			e.addObl("token "+f[1]+" dec", "the thread gives up a "+f[1]+" contribution only if it owns one (mine("+f[1]+") >= 1)", pc, c.cmp(">=", u64, tok, one))
			e.setCtrTotal(st, hm.recv, idx, c.binop("-", u64, tot, one, u64))
			e.setToken(st, f[1], c.binop("-", u64, tok, one, u64))
		}
	}
}

func (e *Encoder) monitorActive(mr *monitorRef) bool {
	return mr != nil && e.fc != nil && sharesProp(e.fc.Props, mr.m.Props)
}

// snapshot records the current memory as the start of a critical section.
func (e *Encoder) snapshot(st *State) {
	c := e.c
	var keys []string
	for k := range c.memSorts {
		if !strings.HasPrefix(k, "snap.") {
			keys = append(keys, k)
		}
	}
	sort.Strings(keys)
	for _, k := range keys {
		srt := c.memSorts[k]
		st.mem["snap."+k] = st.get(c, k, srt)
		c.memSorts["snap."+k] = srt
	}
}

func (e *Encoder) monitorHavocAssume(mr *monitorRef, recv Val, st *State, pc string, why string) {
	env := e.monitorEnv(mr, recv, st)
	for i, m := range mr.m.Protects {
		if err := e.havocMod(env, m, st); err != nil {
			e.errs = append(e.errs, fmt.Sprintf("monitor %s.%s protects %q: %v", mr.m.TypeName, mr.m.MuField, mr.m.ProtText[i], err))
		}
	}
	u64 := types.Typ[types.Uint64]
	for i := range mr.m.Counters {
		v := e.freshVal("ctr_"+mr.m.Counters[i], u64)
		e.assumeWT(v, pc, st)
		e.setCtrTotal(st, recv, i, v.S)
	}
	env = e.monitorEnv(mr, recv, st)
	for _, inv := range mr.m.Invariants {
		s, err := env.ElabBool(inv.E)
		if err != nil {
			e.errs = append(e.errs, fmt.Sprintf("monitor %s.%s invariant %q: %v", mr.m.TypeName, mr.m.MuField, inv.Text, err))
			continue
		}
		e.c.assume(implies(pc, s))
	}
	// other threads can only remove their own contributions: the total never drops below this thread's
	for i, n := range mr.m.Counters {
		e.c.assume(implies(pc, e.c.cmp(">=", u64, e.ctrTotal(st, recv, i), e.token(st, n))))
	}
	e.snapshot(st)
	e.note("monitor %s.%s: protected state havoc'd and invariant assumed at %s", mr.m.TypeName, mr.m.MuField, why)
}

func (e *Encoder) monitorAssert(mr *monitorRef, recv Val, st *State, pc string, where string) {
	env := e.monitorEnv(mr, recv, st)
	for _, inv := range mr.m.Invariants {
		s, err := env.ElabBool(inv.E)
		if err != nil {
			e.errs = append(e.errs, fmt.Sprintf("monitor %s.%s invariant %q: %v", mr.m.TypeName, mr.m.MuField, inv.Text, err))
			continue
		}
		kind := fmt.Sprintf("monitor %s.%s @%s", mr.m.TypeName, mr.m.MuField, where)
		if inv.Tag != "" {
			kind += " " + inv.Tag
		}
		e.addObl(kind, inv.Text, pc, s)
	}
}

// mutexCall handles (*sync.Mutex).Lock/Unlock on a monitored mutex. Returns false when not monitored.
func (e *Encoder) mutexCall(name string, cm *ssa.CallCommon, args []Val, st *State, pc string) bool {
	if len(cm.Args) == 0 {
		return false
	}
	fa, _ := cm.Args[0].(*ssa.FieldAddr)
	mr := e.prog.monitorOfField(fa, false)
	if !e.monitorActive(mr) {
		return false
	}
	recv := e.val(fa.X)
	switch name {
	case "Lock":
		e.lockSites = append(e.lockSites, lockSite{e.curInstr, mr, recv})
		e.held = append(e.held, heldMonitor{mr, recv})
		e.monitorHavocAssume(mr, recv, st, pc, "Lock")
	case "Unlock":
		e.monitorAssert(mr, recv, st, pc, "unlock")
		if _, deferred := e.curInstr.(*ssa.RunDefers); !deferred {
			e.unlockSites = append(e.unlockSites, lockSite{e.curInstr, mr, recv})
			e.refreshHeld(e.curBlk, len(e.curBlk.Instrs))
		}
	default:
		e.errs = append(e.errs, fmt.Sprintf("monitor %s.%s: %s is not supported by the monitor discipline", mr.m.TypeName, mr.m.MuField, name))
	}
	return true
}

// condCall handles (*sync.Cond).Wait/Signal/Broadcast on a condition variable of a monitored object.
func (e *Encoder) condCall(name string, cm *ssa.CallCommon, st *State, pc string) bool {
	if len(cm.Args) == 0 {
		return false
	}
	mr, x := e.prog.condOwner(cm.Args[0])
	if !e.monitorActive(mr) {
		return false
	}
	switch name {
	case "Wait":
		recv := e.val(x)
		e.monitorAssert(mr, recv, st, pc, "wait")
		e.monitorHavocAssume(mr, recv, st, pc, "Wait")
	case "Signal", "Broadcast":
	default:
		return false
	}
	return true
}

// goUnderLock: a `go` statement while monitors are held: a plain heap havoc (which keeps what saveHeldState keeps).
func (e *Encoder) goUnderLock(st *State, pc string) {
	e.havocAll(st, "go statement inside a critical section (protected state of the held monitors is kept)")
}

// saveHeldState records, before a heap havoc, what no callee and no other thread can change: this thread's
// ghost tokens (always), and - for the monitors held at this point - the scalar protected cells, the ghost
// counters and the critical-section snapshot. The returned function restores them after the havoc.
// (A callee that touches protected fields would have to hold the lock itself - impossible while this thread
// holds it - or be a `holds` function, which is under contract and not havoc'd; see the lockset audit.)
func (e *Encoder) saveHeldState(st *State) func() {
	type keep struct {
		loc string
		t   types.Type
		v   string
	}
	var keeps []keep
	pre := st.clone()
	held := append([]heldMonitor(nil), e.held...)
	for _, h := range held {
		env := e.monitorEnv(h.mr, h.recv, pre)
		for _, m := range h.mr.m.Protects {
			func() {
				defer func() {
					if r := recover(); r != nil {
						if _, ok := r.(elabErr); ok {
							return // (element ranges: not kept, they stay havoc'd)
						}
						panic(r)
					}
				}()
				if call, ok := m.(*ECall); ok {
					if id, ok := call.Fun.(*EIdent); ok && (id.Name == "elems" || id.Name == "object") {
						return
					}
				}
				loc, t, ok := env.addr(m)
				if !ok {
					return
				}
				keeps = append(keeps, keep{loc, t, e.load(pre, loc, t).S})
			}()
		}
	}
	var snapKeys []string
	for k := range pre.mem {
		if strings.HasPrefix(k, "snap.") {
			snapKeys = append(snapKeys, k)
		}
	}
	sort.Strings(snapKeys)
	// tokens of every counter of every monitor of the program (thread-local ghost state)
	var tokNames []string
	for _, mr := range e.prog.monitors {
		if e.fc != nil && sharesProp(e.fc.Props, mr.m.Props) {
			tokNames = append(tokNames, mr.m.Counters...)
		}
	}
	tokVals := make([]string, len(tokNames))
	for i, n := range tokNames {
		tokVals[i] = e.token(pre, n)
	}
	type cv struct {
		recv Val
		idx  int
		v    string
	}
	var ctrs []cv
	for _, h := range held {
		for i := range h.mr.m.Counters {
			ctrs = append(ctrs, cv{h.recv, i, e.ctrTotal(pre, h.recv, i)})
		}
	}
	return func() {
		for _, k := range keeps {
			e.store(st, k.loc, k.t, k.v)
		}
		if len(held) > 0 {
			for _, k := range snapKeys {
				st.mem[k] = pre.mem[k]
			}
		}
		for i, n := range tokNames {
			e.setToken(st, n, tokVals[i])
		}
		for _, c := range ctrs {
			e.setCtrTotal(st, c.recv, c.idx, c.v)
		}
	}
}

type frozenLoc struct {
	loc string
	t   types.Type
}

// saveTokens: this thread's ghost tokens survive a havoc that stands for code without ghost actions.
func (e *Encoder) saveTokens(st *State) func() {
	var names []string
	for _, mr := range e.prog.monitors {
		if e.fc != nil && sharesProp(e.fc.Props, mr.m.Props) {
			names = append(names, mr.m.Counters...)
		}
	}
	vals := make([]string, len(names))
	for i, n := range names {
		vals[i] = e.token(st, n)
	}
	return func() {
		for i, n := range names {
			e.setToken(st, n, vals[i])
		}
	}
}

// loopWaitsBlocks: some block of the set waits on a monitored condition variable.
func (e *Encoder) loopWaitsBlocks(blocks map[*ssa.BasicBlock]bool) bool {
	for b := range blocks {
		for _, in := range b.Instrs {
			call, ok := in.(*ssa.Call)
			if !ok {
				continue
			}
			callee := call.Common().StaticCallee()
			if callee == nil || callee.String() != "(*sync.Cond).Wait" || len(call.Common().Args) == 0 {
				continue
			}
			if mr, _ := e.prog.condOwner(call.Common().Args[0]); e.monitorActive(mr) {
				return true
			}
		}
	}
	return false
}

// monitorLoopObls: the invariants of the held monitors as obligations at the entry / back edge of a loop that waits.
func (e *Encoder) monitorLoopObls(li *loopInfo, st *State, pc, phase string) {
	for _, h := range e.held {
		env := e.monitorEnv(h.mr, h.recv, st)
		for _, inv := range h.mr.m.Invariants {
			s, err := env.ElabBool(inv.E)
			if err != nil {
				e.errs = append(e.errs, fmt.Sprintf("monitor %s.%s invariant %q: %v", h.mr.m.TypeName, h.mr.m.MuField, inv.Text, err))
				continue
			}
			kind := fmt.Sprintf("monitor %s.%s @wait-loop %d %s", h.mr.m.TypeName, h.mr.m.MuField, li.ord, phase)
			if inv.Tag != "" {
				kind += " " + inv.Tag
			}
			e.addObl(kind, inv.Text, pc, s)
		}
	}
}

func (e *Encoder) monitorLoopAssume(st *State, pc string) {
	u64 := types.Typ[types.Uint64]
	for _, h := range e.held {
		env := e.monitorEnv(h.mr, h.recv, st)
		for _, inv := range h.mr.m.Invariants {
			if s, err := env.ElabBool(inv.E); err == nil {
				e.c.assume(implies(pc, s))
			}
		}
		for i, n := range h.mr.m.Counters {
			e.c.assume(implies(pc, e.c.cmp(">=", u64, e.ctrTotal(st, h.recv, i), e.token(st, n))))
		}
	}
}

// loopWaits: does the loop body wait on a monitored condition variable?
func (e *Encoder) loopWaits(li *loopInfo) bool {
	for b := range li.body {
		for _, in := range b.Instrs {
			call, ok := in.(*ssa.Call)
			if !ok {
				continue
			}
			callee := call.Common().StaticCallee()
			if callee == nil || callee.String() != "(*sync.Cond).Wait" || len(call.Common().Args) == 0 {
				continue
			}
			if mr, _ := e.prog.condOwner(call.Common().Args[0]); e.monitorActive(mr) {
				return true
			}
		}
	}
	return false
}

// sameAddr: two SSA values denote the same address on every path - the same value, or field addresses of the
// same field of the same address (go/ssa emits a fresh FieldAddr instruction for every `x.f` in the source).
func sameAddr(a, b ssa.Value) bool {
	if a == b {
		return true
	}
	fa, ok1 := a.(*ssa.FieldAddr)
	fb, ok2 := b.(*ssa.FieldAddr)
	if ok1 && ok2 {
		return fa.Field == fb.Field && types.Identical(fa.X.Type(), fb.X.Type()) && sameAddr(fa.X, fb.X)
	}
	// two loads of the same variable that is assigned once and never again (a captured `p := &cl.producer`)
	ua, ok1 := a.(*ssa.UnOp)
	ub, ok2 := b.(*ssa.UnOp)
	if ok1 && ok2 && ua.Op == token.MUL && ub.Op == token.MUL && ua.X == ub.X {
		switch x := ua.X.(type) {
		case *ssa.FreeVar:
			return immutableFreeVar(ua.Parent(), x)
		case *ssa.Alloc:
			return singleStoreAlloc(x)
		}
	}
	return false
}

// ---------- package-wide lockset audit ----------

func (p *Program) runMonitorAudits(prop string) (obls []*Obligation, errs []string) {
	if len(p.monitors) == 0 {
		return nil, nil
	}
	all := ssautil.AllFunctions(p.prog)
	for _, mr := range p.monitors {
		m := mr.m
		if prop != "" && !contains(m.Props, prop) {
			continue
		}
		obj, _ := mr.pkg.Pkg.Scope().Lookup(m.TypeName).(*types.TypeName)
		if obj == nil {
			errs = append(errs, fmt.Sprintf("%s:%d: monitor: type %s not found", m.File, m.Line, m.TypeName))
			continue
		}
		st, ok := obj.Type().Underlying().(*types.Struct)
		if !ok {
			errs = append(errs, fmt.Sprintf("%s:%d: monitor: %s is not a struct", m.File, m.Line, m.TypeName))
			continue
		}
		// protected fields: the direct fields named r.<f> in the protects list
		prot := map[string]bool{}
		for _, t := range m.ProtText {
			t = strings.TrimSpace(t)
			if strings.HasPrefix(t, m.Recv+".") && !strings.ContainsAny(t[len(m.Recv)+1:], ".[(") {
				prot[t[len(m.Recv)+1:]] = true
			}
		}
		for f := range prot {
			found := false
			for i := 0; i < st.NumFields(); i++ {
				if st.Field(i).Name() == f {
					found = true
				}
			}
			if !found {
				errs = append(errs, fmt.Sprintf("%s:%d: monitor: %s has no field %s", m.File, m.Line, m.TypeName, f))
			}
		}
		var fns []*ssa.Function
		for fn := range all {
			if len(fn.Blocks) > 0 && fnTypesPkg(fn) == mr.pkg.Pkg {
				fns = append(fns, fn)
			}
		}
		sort.Slice(fns, func(i, j int) bool { return fns[i].String() < fns[j].String() })
		what := m.TypeName + "." + m.MuField
		mk := func(fn *ssa.Function, kind string, k int, text string, good bool) {
			c := NewCtx(ModeInt, p.specs)
			goal := "false"
			if good {
				goal = "true"
			}
			obls = append(obls, &Obligation{Name: fmt.Sprintf("%s/%s#%d", qualName(fn), kind, k), Fn: qualName(fn), Kind: kind, Text: text, Props: m.Props, ctx: c, pos: 0, pc: "true", goal: goal})
		}
		isMon := func(t types.Type) bool {
			nt := namedOfPtr(t)
			return nt != nil && nt.Obj().Name() == m.TypeName && nt.Obj().Pkg() == mr.pkg.Pkg
		}
		lockers := 0
		for _, fn := range fns {
			key := fn.RelString(mr.pkg.Pkg)
			if o := fn.Origin(); o != nil {
				key = o.RelString(mr.pkg.Pkg)
			}
			exempt := contains(m.Holds, key) || contains(m.Inits, key)
			// Lock / Unlock calls per receiver value
			type ev struct {
				in       ssa.Instruction
				recv     ssa.Value
				deferred bool
			}
			var locks, unlocks []ev
			for _, b := range fn.Blocks {
				for _, in := range b.Instrs {
					ci, ok := in.(ssa.CallInstruction)
					if !ok {
						continue
					}
					cm := ci.Common()
					callee := cm.StaticCallee()
					if callee == nil || len(cm.Args) == 0 {
						continue
					}
					n := callee.String()
					if n != "(*sync.Mutex).Lock" && n != "(*sync.Mutex).Unlock" {
						continue
					}
					fa, ok := cm.Args[0].(*ssa.FieldAddr)
					if !ok || p.monitorOfField(fa, false) != mr {
						continue
					}
					_, isDefer := in.(*ssa.Defer)
					if callee.Name() == "Lock" {
						locks = append(locks, ev{in, fa.X, isDefer})
					} else {
						unlocks = append(unlocks, ev{in, fa.X, isDefer})
					}
				}
			}
			if len(locks) > 0 {
				lockers++
				fc := p.contractFor(fn)
				covered := fc != nil && !fc.Trusted && sharesProp(fc.Props, m.Props)
				mk(fn, "monitor "+what+" locker-under-contract", 0, "a function that locks "+what+" is under contract for "+strings.Join(m.Props, ",")+" (so that its unlock obligations exist)", covered)
			}
			dominates := func(a, b ssa.Instruction) bool {
				if a.Block() == b.Block() {
					for _, in := range a.Block().Instrs {
						if in == a {
							return true
						}
						if in == b {
							return false
						}
					}
					return false
				}
				return a.Block().Dominates(b.Block())
			}
			k := 0
			held := func(recv ssa.Value, at ssa.Instruction) bool {
				for _, l := range locks {
					if !sameAddr(l.recv, recv) || !dominates(l.in, at) {
						continue
					}
					released := false
					for _, u := range unlocks {
						if !u.deferred && sameAddr(u.recv, recv) && dominates(l.in, u.in) && dominates(u.in, at) {
							released = true
						}
					}
					if !released {
						return true
					}
				}
				return false
			}
			hk := 0
			for _, b := range fn.Blocks {
				for _, in := range b.Instrs {
					// calls of functions that must run with the lock held
					if ci, ok := in.(ssa.CallInstruction); ok {
						if callee := ci.Common().StaticCallee(); callee != nil && len(ci.Common().Args) > 0 && fnTypesPkg(callee) == mr.pkg.Pkg {
							ck := callee.RelString(mr.pkg.Pkg)
							if o := callee.Origin(); o != nil {
								ck = o.RelString(mr.pkg.Pkg)
							}
							if contains(m.Holds, ck) && isMon(ci.Common().Args[0].Type()) {
								mk(fn, "monitor "+what+" holds-call", hk, fmt.Sprintf("%s is called with %s held", ck, what), exempt || held(ci.Common().Args[0], in))
								hk++
							}
						}
					}
					fa, ok := in.(*ssa.FieldAddr)
					if !ok || !isMon(fa.X.Type()) {
						continue
					}
					stt := namedOfPtr(fa.X.Type()).Underlying().(*types.Struct)
					fname := stt.Field(fa.Field).Name()
					if !prot[fname] {
						continue
					}
					good := exempt || held(fa.X, in)
					mk(fn, "monitor "+what+" lockset", k, fmt.Sprintf("access to protected field %s.%s happens with %s held (dominated by a Lock of the same receiver with no explicit Unlock in between), or in a function listed as holds/init", m.TypeName, fname, what), good)
					k++
				}
			}
		}
		if lockers == 0 {
			errs = append(errs, fmt.Sprintf("%s:%d: monitor %s: no function locks the mutex (anchor lost)", m.File, m.Line, what))
		}
	}
	return obls, errs
}
