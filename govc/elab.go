package main

// Elaboration of contract expressions into SMT terms.

import (
	"fmt"
	"go/constant"
	"go/types"
	"math/big"
	"sort"
	"strings"
)

type MemFn func(key, sort string) string

type Env struct {
	c      *Ctx
	pkg    *types.Package
	vars   map[string]Val
	mem    MemFn
	old    *Env
	labels map[string]*Env
	// memUsed records memory keys touched (used when compiling spec functions)
	memUsed *[]memUse
	lookup  func(name string) (Val, bool)
	// freshBase: allocation counter of the old state (for fresh()); wt: hook receiving every value
	// loaded from memory so that the type invariant of the cell can be assumed.
	freshBase   string
	wt          func(v Val)
	localsFirst bool
	reached     func(name string) (string, bool)
	// named intermediate values ($name<k>): a boolean atom mentioning one only holds on paths through the
	// instruction that produced it: the atom is conjoined with that instruction's path condition (guards), and
	// is false when the instruction has not been encoded yet on this path (namedKnown + unreachedErr).
	namedKnown func(name string) bool
	guards     *[]string
	// visited: membership in the ghost set of keys already produced by the enclosing map-range loop;
	// curCtr: the allocation counter at the current program point (for allocated())
	visited func(k Val) string
	curCtr  string
	// critMem: the memory at the start of the current critical section (monitors), for atcrit()
	critMem MemFn
	// tok: the calling thread's contribution to a monitor counter at the current point, for mine()
	tok func(name string) string
	// entered: at a back edge, the path condition of the header of an inner loop in the ending iteration
	entered func(j int) (string, bool)
	// athead: at a back edge, the value of a loop variable at the head of the ending iteration
	athead func(name string) (Val, bool)
	// zero: the zero value of a type as the encoder builds it, for iszero()
	zero func(t types.Type) Val
}

type unreachedErr struct{ name string }

// elabAtomic elaborates an operand of a logical connective. If it is a boolean atom (not itself a connective)
// it is guarded by the path conditions of the named values it mentions.
func (env *Env) elabAtomic(x Expr) (v Val) {
	switch y := x.(type) {
	case *EBinary:
		switch y.Op {
		case "&&", "||", "==>", "<==>":
			return env.elab(x)
		}
	case *EUnary:
		if y.Op == "!" {
			return env.elab(x)
		}
	case *EQuant:
		return env.elab(x)
	}
	var mine []string
	saved := env.guards
	env.guards = &mine
	defer func() {
		env.guards = saved
		if r := recover(); r != nil {
			if _, ok := r.(unreachedErr); ok {
				v = Val{T: types.Typ[types.Bool], S: "false"}
				return
			}
			panic(r)
		}
		if len(mine) == 0 {
			return
		}
		if v.T != nil && isBool(v.T) {
			v.S = and(append(mine, v.S)...)
		} else if saved != nil {
			*saved = append(*saved, mine...)
		}
	}()
	return env.elab(x)
}

type memUse struct {
	key  string
	sort string
}

func (e *Env) child() *Env {
	n := *e
	n.vars = map[string]Val{}
	for k, v := range e.vars {
		n.vars[k] = v
	}
	return &n
}

type elabErr struct{ msg string }

func (e elabErr) Error() string { return e.msg }

func fail(format string, a ...any) { panic(elabErr{fmt.Sprintf(format, a...)}) }

// Elab is the panic-safe entry point.
func (env *Env) Elab(x Expr) (v Val, err error) {
	defer func() {
		if r := recover(); r != nil {
			if ee, ok := r.(elabErr); ok {
				err = ee
				return
			}
			if ue, ok := r.(unreachedErr); ok {
				err = elabErr{"named value " + ue.name + " used outside a boolean atom before it is produced"}
				return
			}
			panic(r)
		}
	}()
	return env.elabAtomic(x), nil
}

func (env *Env) ElabBool(x Expr) (string, error) {
	v, err := env.Elab(x)
	if err != nil {
		return "", err
	}
	if v.T == nil || !isBool(v.T) {
		return "", fmt.Errorf("expression %s is not boolean", exprString(x))
	}
	return v.S, nil
}

func (c *Ctx) globalLoc(name string) string {
	if c.globals == nil {
		c.globals = map[string]int{}
	}
	id, ok := c.globals[name]
	if !ok {
		id = len(c.globals) + 2
		c.globals[name] = id
	}
	return fmt.Sprintf("(lroot (- %d))", id)
}

func (env *Env) resolveType(name string) types.Type {
	name = strings.TrimSpace(name)
	switch {
	case strings.HasPrefix(name, "[]"):
		return types.NewSlice(env.resolveType(name[2:]))
	case strings.HasPrefix(name, "*"):
		return types.NewPointer(env.resolveType(name[1:]))
	case name == "mathint":
		return mathIntType
	}
	if obj := types.Universe.Lookup(name); obj != nil {
		if tn, ok := obj.(*types.TypeName); ok {
			return tn.Type()
		}
	}
	if i := strings.Index(name, "."); i >= 0 && env.pkg != nil {
		pn, tn := name[:i], name[i+1:]
		for _, imp := range env.pkg.Imports() {
			if imp.Name() == pn {
				if obj, ok := imp.Scope().Lookup(tn).(*types.TypeName); ok {
					return obj.Type()
				}
			}
		}
		return nil
	}
	if env.pkg != nil {
		if obj, ok := env.pkg.Scope().Lookup(name).(*types.TypeName); ok {
			return obj.Type()
		}
	}
	return nil
}

func (env *Env) coerce(v Val, t types.Type) Val {
	if v.T != nil {
		return v
	}
	if v.C == nil {
		fail("cannot type untyped value %s", v.S)
	}
	if !isInt(t) {
		fail("constant %s used as %s", v.C, t)
	}
	return Val{T: t, S: env.c.lit(t, v.C)}
}

func (env *Env) unify(a, b Val) (Val, Val) {
	switch {
	case a.T == nil && b.T == nil:
		return a, b
	case a.T == nil:
		return env.coerce(a, b.T), b
	case b.T == nil:
		return a, env.coerce(b, a.T)
	}
	return a, b
}

func (env *Env) defaultInt(v Val) Val {
	if v.T == nil && v.C != nil {
		return env.coerce(v, types.Typ[types.Int])
	}
	return v
}

func (env *Env) load(loc string, t types.Type) Val {
	c := env.c
	switch u := t.Underlying().(type) {
	case *types.Struct:
		sn := c.structSort(u)
		if u.NumFields() == 0 {
			return Val{T: t, S: "mk_" + sn}
		}
		var fs []string
		for i := 0; i < u.NumFields(); i++ {
			fs = append(fs, env.load(c.lfield(loc, u, i), u.Field(i).Type()).S)
		}
		return Val{T: t, S: fmt.Sprintf("(mk_%s %s)", sn, strings.Join(fs, " "))}
	case *types.Array:
		if scalarElem(u.Elem()) {
			key, srt := c.arrKey(u.Elem()), c.arrSort(u.Elem())
			if env.memUsed != nil {
				*env.memUsed = append(*env.memUsed, memUse{key, srt})
			}
			return Val{T: t, S: fmt.Sprintf("(select %s %s)", env.mem(key, srt), loc)}
		}
		if u.Len() > 64 {
			fail("array value of length %d too large to load", u.Len())
		}
		arr := c.fresh("arr")
		c.declare(arr, c.sortOf(t))
		term := arr
		for i := int64(0); i < u.Len(); i++ {
			term = fmt.Sprintf("(store %s %s %s)", term, c.idxLit(i), env.load(fmt.Sprintf("(lelem %s %s)", loc, c.idxLit(i)), u.Elem()).S)
		}
		return Val{T: t, S: term}
	}
	v := Val{T: t, S: c.readLeaf(env.mem, env.memUsed, loc, t)}
	if env.wt != nil && !strings.Contains(v.S, "q!") {
		env.wt(v)
	}
	return v
}

func fieldIndex(t types.Type, name string) (int, *types.Struct) {
	if p, ok := t.Underlying().(*types.Pointer); ok {
		t = p.Elem()
	}
	st, ok := t.Underlying().(*types.Struct)
	if !ok {
		return -1, nil
	}
	for i := 0; i < st.NumFields(); i++ {
		if st.Field(i).Name() == name {
			return i, st
		}
	}
	return -1, st
}

// addr computes the location denoted by an addressable expression.
func (env *Env) addr(x Expr) (loc string, t types.Type, ok bool) {
	switch x := x.(type) {
	case *EStar:
		p := env.elab(x.X)
		pt, isp := p.T.Underlying().(*types.Pointer)
		if !isp {
			fail("dereference of non-pointer %s", exprString(x.X))
		}
		return p.S, pt.Elem(), true
	case *ESel:
		// pointer base?
		if id, isid := x.X.(*EIdent); isid {
			if _, isvar := env.vars[id.Name]; !isvar && env.isPkgName(id.Name) {
				return "", nil, false
			}
		}
		if bl, bt, bok := env.addr(x.X); bok {
			if pt, isp := bt.Underlying().(*types.Pointer); isp {
				// addressable pointer variable: load pointer then field
				pv := env.load(bl, bt)
				i, st := fieldIndex(pt.Elem(), x.Name)
				if i < 0 {
					fail("no field %s in %s", x.Name, pt.Elem())
				}
				return env.c.lfield(pv.S, st, i), st.Field(i).Type(), true
			}
			i, st := fieldIndex(bt, x.Name)
			if i < 0 {
				fail("no field %s in %s", x.Name, bt)
			}
			return env.c.lfield(bl, st, i), st.Field(i).Type(), true
		}
		v := env.elab(x.X)
		if pt, isp := v.T.Underlying().(*types.Pointer); isp {
			if _, pp := pt.Elem().Underlying().(*types.Pointer); pp {
				// (a captured variable of a closure is the address of its cell)
				fail("field %s selected through a pointer to a pointer: write (*%s).%s", x.Name, exprString(x.X), x.Name)
			}
			i, st := fieldIndex(pt.Elem(), x.Name)
			if i < 0 {
				fail("no field %s in %s", x.Name, pt.Elem())
			}
			return env.c.lfield(v.S, st, i), st.Field(i).Type(), true
		}
		return "", nil, false
	case *EIndex:
		if bl, bt, bok := env.addr(x.X); bok {
			if at, isa := bt.Underlying().(*types.Array); isa {
				i := env.idxVal(env.elab(x.I))
				return fmt.Sprintf("(lelem %s %s)", bl, i), at.Elem(), true
			}
		}
		v := env.elab(x.X)
		switch u := v.T.Underlying().(type) {
		case *types.Slice:
			i := env.idxVal(env.elab(x.I))
			return fmt.Sprintf("(lelem (sbase %s) %s)", v.S, env.c.binopIdx("+", fmt.Sprintf("(soff %s)", v.S), i)), u.Elem(), true
		case *types.Pointer:
			if at, isa := u.Elem().Underlying().(*types.Array); isa {
				i := env.idxVal(env.elab(x.I))
				return fmt.Sprintf("(lelem %s %s)", v.S, i), at.Elem(), true
			}
		}
		return "", nil, false
	}
	return "", nil, false
}

func (c *Ctx) binopIdx(op, x, y string) string {
	if c.mode == ModeBV {
		if op == "+" {
			return fmt.Sprintf("(bvadd %s %s)", x, y)
		}
		return fmt.Sprintf("(bvsub %s %s)", x, y)
	}
	return fmt.Sprintf("(%s %s %s)", op, x, y)
}

// idxVal converts an integer value to the index sort (Go int).
func (env *Env) idxVal(v Val) string {
	v = env.defaultInt(v)
	if !isInt(v.T) {
		fail("index is not an integer")
	}
	return env.c.convert(v.T, types.Typ[types.Int], v.S)
}

func (env *Env) isPkgName(n string) bool {
	if env.pkg == nil {
		return false
	}
	for _, imp := range env.pkg.Imports() {
		if imp.Name() == n {
			return true
		}
	}
	return false
}

func (env *Env) constVal(cn *types.Const) Val {
	switch cn.Val().Kind() {
	case constant.Int:
		v, _ := new(big.Int).SetString(cn.Val().ExactString(), 10)
		if b, ok := cn.Type().(*types.Basic); ok && b.Info()&types.IsUntyped != 0 {
			return Val{C: v, S: v.String()}
		}
		return Val{T: cn.Type(), S: env.c.lit(cn.Type(), v)}
	case constant.Bool:
		return Val{T: types.Typ[types.Bool], S: fmt.Sprint(constant.BoolVal(cn.Val()))}
	case constant.String:
		return Val{T: types.Typ[types.String], S: env.c.strConst(constant.StringVal(cn.Val()))}
	}
	fail("unsupported constant %s", cn.Name())
	return Val{}
}

func (env *Env) lookupPkgObj(pkg *types.Package, name string) (Val, bool) {
	obj := pkg.Scope().Lookup(name)
	switch o := obj.(type) {
	case *types.Const:
		return env.constVal(o), true
	case *types.Var:
		if s, ok := env.c.constGlobal(pkg.Path() + "." + name); ok {
			return Val{T: o.Type(), S: s}, true
		}
		loc := env.c.globalLoc(pkg.Path() + "." + name)
		return env.load(loc, o.Type()), true
	}
	return Val{}, false
}

func (env *Env) elab(x Expr) Val {
	c := env.c
	switch x := x.(type) {
	case *EInt:
		return Val{C: x.V, S: x.V.String()}
	case *EBool:
		return Val{T: types.Typ[types.Bool], S: fmt.Sprint(x.V)}
	case *EStr:
		return Val{T: types.Typ[types.String], S: c.strConst(x.V)}
	case *ENil:
		return Val{T: types.Typ[types.UntypedNil], S: "nil"}
	case *EIdent:
		if strings.HasPrefix(x.Name, "$") {
			if v, ok := env.vars[x.Name]; ok {
				if env.reached != nil && env.guards != nil {
					if pc, ok := env.reached(x.Name); ok && pc != "true" {
						*env.guards = append(*env.guards, pc)
					}
				}
				return v
			}
			if env.namedKnown != nil && env.namedKnown(x.Name) {
				panic(unreachedErr{x.Name})
			}
		}
		if v, ok := env.vars[x.Name]; ok {
			// in loop invariants and site assertions a plain name denotes the variable's current value
			// (parameters can be reassigned); old(name) is the entry value. Bound variables win.
			if env.localsFirst && env.lookup != nil && !strings.HasPrefix(v.S, "q!") {
				if lv, ok := env.lookup(x.Name); ok {
					return lv
				}
			}
			return v
		}
		if env.lookup != nil {
			if v, ok := env.lookup(x.Name); ok {
				return v
			}
		}
		if env.pkg != nil {
			if v, ok := env.lookupPkgObj(env.pkg, x.Name); ok {
				return v
			}
		}
		fail("unknown identifier %s", x.Name)
	case *EUnary:
		if x.Op == "!" {
			v := env.elabAtomic(x.X)
			if v.T == nil || !isBool(v.T) {
				fail("! on non-bool")
			}
			return Val{T: v.T, S: not(v.S)}
		}
		if x.Op == "&" {
			// &lvalue: the location of a field, element or dereference
			loc, t, ok := env.addr(x.X)
			if !ok {
				fail("cannot take the address of %s", exprString(x.X))
			}
			return Val{T: types.NewPointer(t), S: loc}
		}
		v := env.elab(x.X)
		switch x.Op {
		case "-":
			if v.T == nil {
				return Val{C: new(big.Int).Neg(v.C), S: ""}
			}
			return Val{T: v.T, S: c.neg(v.T, v.S)}
		case "^":
			if v.T == nil {
				return Val{C: new(big.Int).Not(v.C)}
			}
			return Val{T: v.T, S: c.bitnot(v.T, v.S)}
		}
	case *EStar:
		loc, t, ok := env.addr(x)
		if !ok {
			fail("cannot dereference %s", exprString(x.X))
		}
		return env.load(loc, t)
	case *EBinary:
		return env.elabBinary(x)
	case *ESel:
		if id, ok := x.X.(*EIdent); ok {
			if _, isvar := env.vars[id.Name]; !isvar && env.pkg != nil {
				for _, imp := range env.pkg.Imports() {
					if imp.Name() == id.Name {
						if v, ok := env.lookupPkgObj(imp, x.Name); ok {
							return v
						}
						fail("unknown %s.%s", id.Name, x.Name)
					}
				}
			}
		}
		if loc, t, ok := env.addr(x); ok {
			return env.load(loc, t)
		}
		v := env.elab(x.X)
		i, st := fieldIndex(v.T, x.Name)
		if i < 0 {
			fail("no field %s in %v", x.Name, v.T)
		}
		sn := c.structSort(st)
		return Val{T: st.Field(i).Type(), S: fmt.Sprintf("(%s_f%d %s)", sn, i, v.S)}
	case *EIndex:
		if loc, t, ok := env.addr(x); ok {
			return env.load(loc, t)
		}
		v := env.elab(x.X)
		switch u := v.T.Underlying().(type) {
		case *types.Array:
			return Val{T: u.Elem(), S: fmt.Sprintf("(select %s %s)", v.S, env.idxVal(env.elab(x.I)))}
		case *types.Basic:
			if isString(u) {
				return Val{T: types.Typ[types.Uint8], S: fmt.Sprintf("(str_at %s %s)", v.S, env.idxVal(env.elab(x.I)))}
			}
		case *types.Map:
			k := env.elab(x.I)
			k = env.coerce(k, u.Key())
			return env.mapGet(v, u, k.S)
		}
		fail("cannot index %s", exprString(x.X))
	case *ESlice:
		v := env.elab(x.X)
		if _, ok := v.T.Underlying().(*types.Slice); !ok {
			fail("slice expression on non-slice %s", exprString(x.X))
		}
		lo := c.idxLit(0)
		if x.Lo != nil {
			lo = env.idxVal(env.elab(x.Lo))
		}
		hi := fmt.Sprintf("(slen %s)", v.S)
		if x.Hi != nil {
			hi = env.idxVal(env.elab(x.Hi))
		}
		max := fmt.Sprintf("(scap %s)", v.S)
		if x.Max != nil {
			max = env.idxVal(env.elab(x.Max))
		}
		return Val{T: v.T, S: fmt.Sprintf("(mkslice (sbase %s) %s %s %s)", v.S, c.binopIdx("+", fmt.Sprintf("(soff %s)", v.S), lo), c.binopIdx("-", hi, lo), c.binopIdx("-", max, lo))}
	case *ECall:
		return env.elabCall(x)
	case *EQuant:
		return env.elabQuant(x)
	}
	fail("unsupported expression %s", exprString(x))
	return Val{}
}

func (env *Env) elabQuant(q *EQuant) Val {
	c := env.c
	inner := env.child()
	var binders []string
	var guards []string
	intT := types.Typ[types.Int]
	if q.Lo != nil {
		lo := env.idxVal(env.elab(q.Lo))
		hi := env.idxVal(env.elab(q.Hi))
		for _, v := range q.Vars {
			n := "q!" + v
			binders = append(binders, fmt.Sprintf("(%s %s)", n, c.idx()))
			inner.vars[v] = Val{T: intT, S: n}
			guards = append(guards, c.cmp("<=", intT, lo, n), c.cmp("<", intT, n, hi))
		}
	} else {
		t := env.resolveType(q.Type)
		if t == nil {
			fail("unknown type %q in quantifier", q.Type)
		}
		for _, v := range q.Vars {
			n := "q!" + v
			binders = append(binders, fmt.Sprintf("(%s %s)", n, c.sortOf(t)))
			inner.vars[v] = Val{T: t, S: n}
			if r := c.inRange(t, n); r != "" {
				guards = append(guards, r)
			}
			if _, ok := t.Underlying().(*types.Slice); ok {
				guards = append(guards, c.sliceWF(n))
			}
		}
	}
	if inner.old != nil {
		o := inner.old.child()
		for _, v := range q.Vars {
			o.vars[v] = inner.vars[v]
		}
		inner.old = o
	}
	b := inner.elabAtomic(q.Body)
	if b.T == nil || !isBool(b.T) {
		fail("quantifier body not boolean")
	}
	g := and(guards...)
	if q.Forall {
		body := implies(g, b.S)
		if len(q.Vars) == 1 {
			if pats := quantPatterns(b.S, "q!"+q.Vars[0]); len(pats) > 0 {
				var ps []string
				for _, p := range pats {
					ps = append(ps, ":pattern ("+p+")")
				}
				return Val{T: types.Typ[types.Bool], S: fmt.Sprintf("(forall (%s) (! %s %s))", strings.Join(binders, " "), body, strings.Join(ps, " "))}
			}
		}
		return Val{T: types.Typ[types.Bool], S: fmt.Sprintf("(forall (%s) %s)", strings.Join(binders, " "), body)}
	}
	return Val{T: types.Typ[types.Bool], S: fmt.Sprintf("(exists (%s) %s)", strings.Join(binders, " "), and(g, b.S))}
}

// sliceWF: 0 <= off, 0 <= len <= cap (and in bv mode no wrap of off+cap).
func (c *Ctx) sliceWF(s string) string {
	intT := types.Typ[types.Int]
	z := c.idxLit(0)
	l, k, o := fmt.Sprintf("(slen %s)", s), fmt.Sprintf("(scap %s)", s), fmt.Sprintf("(soff %s)", s)
	wf := and(c.cmp("<=", intT, z, l), c.cmp("<=", intT, l, k), c.cmp("<=", intT, z, o))
	// stated assumption: no slice that exists has 2^40 or more elements (so index arithmetic does not
	// wrap and an allocation bounded by an existing slice's length is a legal allocation)
	big := c.lit(intT, pow2(40))
	wf = and(wf, c.cmp("<", intT, k, big), c.cmp("<", intT, o, big))
	wf = and(wf, fmt.Sprintf("(=> (= (sbase %s) lnil) (and (= %s %s) (= %s %s)))", s, k, z, o, z))
	return wf
}

func (env *Env) elabBinary(x *EBinary) Val {
	c := env.c
	boolT := types.Typ[types.Bool]
	switch x.Op {
	case "&&", "||", "==>", "<==>":
		a := env.elabAtomic(x.X)
		if x.Op == "==>" && a.S == "false" {
			return Val{T: boolT, S: "true"} // the consequent is not even elaborated
		}
		b := env.elabAtomic(x.Y)
		if a.T == nil || b.T == nil || !isBool(a.T) || !isBool(b.T) {
			fail("logical operator %s on non-bool in %s", x.Op, exprString(x))
		}
		switch x.Op {
		case "&&":
			return Val{T: boolT, S: and(a.S, b.S)}
		case "||":
			return Val{T: boolT, S: or(a.S, b.S)}
		case "==>":
			return Val{T: boolT, S: fmt.Sprintf("(=> %s %s)", a.S, b.S)}
		default:
			return Val{T: boolT, S: fmt.Sprintf("(= %s %s)", a.S, b.S)}
		}
	}
	a, b := env.elab(x.X), env.elab(x.Y)
	// nil handling
	if isNilVal(a) || isNilVal(b) {
		if x.Op != "==" && x.Op != "!=" {
			fail("nil in arithmetic")
		}
		if isNilVal(a) {
			a, b = b, a
		}
		var eq string
		switch a.T.Underlying().(type) {
		case *types.Pointer:
			eq = fmt.Sprintf("(= %s lnil)", a.S)
		case *types.Slice:
			eq = fmt.Sprintf("(= (sbase %s) lnil)", a.S)
		case *types.Interface:
			eq = fmt.Sprintf("(= %s iface_nil)", a.S)
		case *types.Map:
			eq = fmt.Sprintf("(= %s map_nil)", a.S)
		case *types.Signature:
			eq = fmt.Sprintf("(= %s fn_nil)", a.S)
		default:
			fail("nil comparison on %v", a.T)
		}
		if x.Op == "!=" {
			eq = not(eq)
		}
		return Val{T: boolT, S: eq}
	}
	if a.T == nil && b.T == nil {
		// constant folding
		r := new(big.Int)
		switch x.Op {
		case "+":
			r.Add(a.C, b.C)
		case "-":
			r.Sub(a.C, b.C)
		case "*":
			r.Mul(a.C, b.C)
		case "/":
			r.Quo(a.C, b.C)
		case "%":
			r.Rem(a.C, b.C)
		case "<<":
			r.Lsh(a.C, uint(b.C.Int64()))
		case ">>":
			r.Rsh(a.C, uint(b.C.Int64()))
		case "&":
			r.And(a.C, b.C)
		case "|":
			r.Or(a.C, b.C)
		case "^":
			r.Xor(a.C, b.C)
		case "==":
			return Val{T: boolT, S: fmt.Sprint(a.C.Cmp(b.C) == 0)}
		case "!=":
			return Val{T: boolT, S: fmt.Sprint(a.C.Cmp(b.C) != 0)}
		case "<":
			return Val{T: boolT, S: fmt.Sprint(a.C.Cmp(b.C) < 0)}
		case "<=":
			return Val{T: boolT, S: fmt.Sprint(a.C.Cmp(b.C) <= 0)}
		case ">":
			return Val{T: boolT, S: fmt.Sprint(a.C.Cmp(b.C) > 0)}
		case ">=":
			return Val{T: boolT, S: fmt.Sprint(a.C.Cmp(b.C) >= 0)}
		default:
			fail("cannot fold %s", x.Op)
		}
		return Val{C: r}
	}
	if x.Op == "<<" || x.Op == ">>" {
		if a.T == nil {
			a = env.coerce(a, types.Typ[types.Int])
		}
		b = env.defaultInt(b)
		if c.mode == ModeInt && b.C == nil {
			// keep literal form for int mode constant shifts
		}
		return Val{T: a.T, S: c.binop(x.Op, a.T, a.S, b.S, b.T)}
	}
	a, b = env.unify(a, b)
	switch x.Op {
	case "==", "!=":
		if isInt(a.T) && isInt(b.T) && !types.Identical(a.T.Underlying(), b.T.Underlying()) && !(isMathInt(a.T) || isMathInt(b.T)) {
			fail("mismatched integer types %v and %v in %s", a.T, b.T, exprString(x))
		}
		if isMathInt(a.T) != isMathInt(b.T) {
			fail("mathint compared with machine int in %s (convert explicitly)", exprString(x))
		}
		eq := fmt.Sprintf("(= %s %s)", a.S, b.S)
		if x.Op == "!=" {
			eq = not(eq)
		}
		return Val{T: boolT, S: eq}
	case "<", "<=", ">", ">=":
		if !isInt(a.T) || !isInt(b.T) {
			fail("ordering on non-integers in %s", exprString(x))
		}
		env.checkSameInt(a, b, x)
		return Val{T: boolT, S: c.cmp(x.Op, a.T, a.S, b.S)}
	default:
		if !isInt(a.T) || !isInt(b.T) {
			fail("arithmetic on non-integers in %s", exprString(x))
		}
		env.checkSameInt(a, b, x)
		return Val{T: a.T, S: c.binop(x.Op, a.T, a.S, b.S, b.T)}
	}
}

func (env *Env) checkSameInt(a, b Val, x Expr) {
	if isMathInt(a.T) != isMathInt(b.T) {
		fail("mathint mixed with machine int in %s (convert explicitly)", exprString(x))
	}
	wa, sa, _ := intInfo(a.T)
	wb, sb, _ := intInfo(b.T)
	if wa != wb || sa != sb {
		fail("mismatched integer types %v and %v in %s", a.T, b.T, exprString(x))
	}
}

func isNilVal(v Val) bool {
	b, ok := v.T.(*types.Basic)
	return ok && b.Kind() == types.UntypedNil
}

func (env *Env) elabCall(x *ECall) Val {
	c := env.c
	// qualified type conversion pkg.T(x)
	if sel, ok := x.Fun.(*ESel); ok {
		if id, ok := sel.X.(*EIdent); ok && env.isPkgName(id.Name) {
			if t := env.resolveType(id.Name + "." + sel.Name); t != nil && len(x.Args) == 1 {
				return env.convertTo(env.elab(x.Args[0]), t)
			}
		}
		// x.M() on an interface value whose dynamic type is known at this program point (the value was made from
		// a *T right here) and whose method M of that type is a constant function (`return <literal>`): the literal
		if len(x.Args) == 0 && constMethodHook != nil {
			recv := env.elab(sel.X)
			if recv.Dyn != nil {
				if k, t, ok := constMethodHook(recv.Dyn, sel.Name); ok {
					return Val{T: t, S: c.lit(t, k)}
				}
				fail("%s: method %s of %v is not a constant function", exprString(x), sel.Name, recv.Dyn)
			}
			if recv.S == "iface_nil" {
				// a method of the nil interface value: never evaluated by a well-guarded clause; any value
				if it, ok := recv.T.Underlying().(*types.Interface); ok {
					for i := 0; i < it.NumMethods(); i++ {
						if m := it.Method(i); m.Name() == sel.Name {
							if rs := m.Type().(*types.Signature).Results(); rs.Len() == 1 {
								n := c.fresh("nilcall")
								c.declare(n, c.sortOf(rs.At(0).Type()))
								return Val{T: rs.At(0).Type(), S: n}
							}
						}
					}
				}
			}
			fail("%s: the dynamic type of %s is not known here", exprString(x), exprString(sel.X))
		}
		fail("unsupported call %s", exprString(x))
	}
	id, ok := x.Fun.(*EIdent)
	if !ok {
		fail("unsupported call %s", exprString(x))
	}
	name := id.Name
	switch {
	case name == "atentry":
		// atentry(e): e evaluated in the memory of the function's entry state but with the CURRENT values of
		// local variables (old(e) uses the entry values of the variables as well). For data the function only
		// reads: atentry(gaps[gi].firstOffset) needs no framing argument.
		if env.old == nil {
			fail("atentry() not available here")
		}
		a := *env
		a.mem = env.old.mem
		return a.elab(x.Args[0])
	case name == "mine":
		// mine(counter): the calling thread's own contribution to a monitor counter
		id, ok := x.Args[0].(*EIdent)
		if !ok || env.tok == nil {
			fail("mine() needs a counter name and a program point")
		}
		return Val{T: types.Typ[types.Uint64], S: env.tok(id.Name)}
	case name == "atcrit":
		// atcrit(e): e evaluated in the memory at the start of the current critical section (after the last
		// Lock / Wait of a monitored mutex), with the current values of local variables
		if env.critMem == nil {
			fail("atcrit() not available here")
		}
		a := *env
		a.mem = env.critMem
		return a.elab(x.Args[0])
	case name == "old" || strings.HasPrefix(name, "old@"):
		var oe *Env
		if name == "old" {
			oe = env.old
		} else {
			oe = env.labels[name[4:]]
		}
		if oe == nil {
			fail("%s() not available here", name)
		}
		o := oe.child()
		// bound variables of enclosing quantifiers are visible
		for k, v := range env.vars {
			if strings.HasPrefix(v.S, "q!") {
				o.vars[k] = v
			}
		}
		return o.elab(x.Args[0])
	case name == "len" || name == "cap":
		v := env.elab(x.Args[0])
		intT := types.Typ[types.Int]
		switch u := v.T.Underlying().(type) {
		case *types.Slice:
			if name == "len" {
				return Val{T: intT, S: fmt.Sprintf("(slen %s)", v.S)}
			}
			return Val{T: intT, S: fmt.Sprintf("(scap %s)", v.S)}
		case *types.Basic:
			if isString(u) {
				return Val{T: intT, S: fmt.Sprintf("(str_len %s)", v.S)}
			}
		case *types.Array:
			return Val{T: intT, S: c.idxLit(u.Len())}
		case *types.Map:
			// (same term as the encoder's builtin len: a nil map has length 0)
			return Val{T: intT, S: fmt.Sprintf("(ite (= %s map_nil) %s (%s %s))", v.S, c.idxLit(0), env.mapLenFn(u), env.mapState(v, u))}
		}
		fail("len of %v", v.T)
	case name == "ite":
		cnd := env.elab(x.Args[0])
		a, b := env.unify(env.elab(x.Args[1]), env.elab(x.Args[2]))
		a, b = env.defaultInt(a), env.defaultInt(b)
		return Val{T: a.T, S: fmt.Sprintf("(ite %s %s %s)", cnd.S, a.S, b.S)}
	case name == "min" || name == "max":
		a, b := env.unify(env.elab(x.Args[0]), env.elab(x.Args[1]))
		a, b = env.defaultInt(a), env.defaultInt(b)
		op := "<="
		if name == "max" {
			op = ">="
		}
		return Val{T: a.T, S: fmt.Sprintf("(ite %s %s %s)", c.cmp(op, a.T, a.S, b.S), a.S, b.S)}
	case name == "string":
		v := env.elab(x.Args[0])
		if isString(v.T) {
			return v
		}
		if _, ok := v.T.Underlying().(*types.Slice); ok {
			return Val{T: types.Typ[types.String], S: env.bytesToStr(v)}
		}
		fail("string() of %v", v.T)
	case name == "disjoint" || name == "sameorigin":
		a, b := env.elab(x.Args[0]), env.elab(x.Args[1])
		if _, ok := a.T.Underlying().(*types.Slice); !ok {
			fail("%s() needs slices", name)
		}
		if _, ok := b.T.Underlying().(*types.Slice); !ok {
			fail("%s() needs slices", name)
		}
		if name == "disjoint" {
			// conservative: different backing arrays
			return Val{T: types.Typ[types.Bool], S: fmt.Sprintf("(not (= (sbase %s) (sbase %s)))", a.S, b.S)}
		}
		return Val{T: types.Typ[types.Bool], S: fmt.Sprintf("(and (= (sbase %s) (sbase %s)) (= (soff %s) (soff %s)))", a.S, b.S, a.S, b.S)}
	case name == "visited":
		// visited(k): key k has already been produced by the map range of the loop the invariant belongs to
		if env.visited == nil {
			fail("visited() is only available in invariants of a range-over-map loop")
		}
		k := env.elab(x.Args[0])
		return Val{T: types.Typ[types.Bool], S: env.visited(k)}
	case name == "allocated":
		// allocated(x): the object x points into exists at the current program point
		if env.curCtr == "" {
			fail("allocated() not available here")
		}
		a := env.elab(x.Args[0])
		switch a.T.Underlying().(type) {
		case *types.Slice:
			return Val{T: types.Typ[types.Bool], S: fmt.Sprintf("(< (rootof (sbase %s)) %s)", a.S, env.curCtr)}
		case *types.Pointer:
			return Val{T: types.Typ[types.Bool], S: fmt.Sprintf("(< (rootof %s) %s)", a.S, env.curCtr)}
		}
		fail("allocated() needs a slice or pointer")
	case name == "fresh":
		// allocated after the old state (function entry, or the call for a callee's contract)
		if env.freshBase == "" {
			fail("fresh() not available here")
		}
		a := env.elab(x.Args[0])
		switch a.T.Underlying().(type) {
		case *types.Slice:
			return Val{T: types.Typ[types.Bool], S: fmt.Sprintf("(>= (rootof (sbase %s)) %s)", a.S, env.freshBase)}
		case *types.Pointer:
			return Val{T: types.Typ[types.Bool], S: fmt.Sprintf("(>= (rootof %s) %s)", a.S, env.freshBase)}
		}
		fail("fresh() needs a slice or pointer")
	case name == "preserved":
		// preserved(): every memory cell of every object that existed in the old state (function entry) still
		// holds its old value - the function has so far written only to objects it allocated itself. One
		// quantifier per memory, triggered by reads of the current memory.
		if env.old == nil || env.freshBase == "" {
			fail("preserved() not available here")
		}
		var keys []string
		for k := range c.memSorts {
			keys = append(keys, k)
		}
		sort.Strings(keys)
		var cs []string
		for _, k := range keys {
			srt := c.memSorts[k]
			cur, old := env.mem(k, srt), env.old.mem(k, srt)
			if cur == old {
				continue
			}
			cs = append(cs, fmt.Sprintf("(forall ((p!u Loc)) (! (=> (< (rootof p!u) %s) (= (select %s p!u) (select %s p!u))) :pattern ((select %s p!u))))", env.freshBase, cur, old, cur))
		}
		return Val{T: types.Typ[types.Bool], S: and(cs...)}
	case name == "reached":
		// reached($x): the instruction that produced the named value lies on the current path
		id, ok := x.Args[0].(*EIdent)
		if !ok || env.reached == nil {
			fail("reached() needs a $name and a program point")
		}
		pc, ok := env.reached(id.Name)
		if !ok {
			if env.namedKnown != nil && env.namedKnown(id.Name) {
				return Val{T: types.Typ[types.Bool], S: "false"}
			}
			fail("unknown identifier %s", id.Name)
		}
		return Val{T: types.Typ[types.Bool], S: pc}
	case name == "isfunc":
		// isfunc(x, "F"): the function value x is statically the function (or method expression / method value
		// thunk of) F - decided from the name of the function constant, no solver involved
		if len(x.Args) != 2 {
			fail("isfunc(x, \"F\") needs a function value and a name")
		}
		v := env.elab(x.Args[0])
		nm, ok := x.Args[1].(*EStr)
		if !ok {
			fail("isfunc(x, \"F\"): F must be a string literal")
		}
		if !strings.HasPrefix(v.S, "fn_") {
			return Val{T: types.Typ[types.Bool], S: "false"} // not a static function constant
		}
		base := v.S
		for _, suf := range []string{sanitize("$thunk"), sanitize("$bound")} {
			base = strings.TrimSuffix(base, suf)
		}
		if strings.HasSuffix(base, sanitize("."+nm.V)) || strings.HasSuffix(base, sanitize(")."+nm.V)) {
			return Val{T: types.Typ[types.Bool], S: "true"}
		}
		return Val{T: types.Typ[types.Bool], S: "false"}
	case name == "typename":
		// typename(x, "Suffix"): the name of the named type T when the interface value x was made from a T or *T at
		// this very program point, with the given suffix removed (a type whose name lacks the suffix is a contract
		// error) - read off go/types, no solver involved. For the nil interface value: an arbitrary string.
		if len(x.Args) != 2 {
			fail("typename(x, \"Suffix\") needs an interface value and a string literal")
		}
		v := env.elab(x.Args[0])
		suf, ok := x.Args[1].(*EStr)
		if !ok {
			fail("typename(x, \"Suffix\"): the suffix must be a string literal")
		}
		if v.Dyn == nil {
			if v.S == "iface_nil" {
				n := c.fresh("nilname")
				c.declare(n, c.sortOf(types.Typ[types.String]))
				return Val{T: types.Typ[types.String], S: n}
			}
			fail("%s: the dynamic type of %s is not known here", exprString(x), exprString(x.Args[0]))
		}
		dt := v.Dyn
		if p, ok := dt.(*types.Pointer); ok {
			dt = p.Elem()
		}
		nt, ok := dt.(*types.Named)
		if !ok {
			fail("%s: dynamic type %v is not a named type", exprString(x), v.Dyn)
		}
		tn := nt.Obj().Name()
		if !strings.HasSuffix(tn, suf.V) {
			fail("%s: type name %s does not end in %q", exprString(x), tn, suf.V)
		}
		return Val{T: types.Typ[types.String], S: c.strConst(strings.TrimSuffix(tn, suf.V))}
	case name == "iszero":
		// iszero(x): x is the zero value of its type (arrays and structs included)
		if len(x.Args) != 1 || env.zero == nil {
			fail("iszero(x) needs one argument at a program point")
		}
		v := env.elab(x.Args[0])
		if v.T == nil {
			fail("iszero() needs a typed value")
		}
		return Val{T: types.Typ[types.Bool], S: fmt.Sprintf("(= %s %s)", v.S, env.zero(v.T).S)}
	case name == "athead":
		// athead(x) in `loop k backedge`: the value of the loop variable x when the ending iteration began
		if len(x.Args) != 1 || env.athead == nil {
			fail("athead(x) needs a loop variable and a back edge")
		}
		id, ok := x.Args[0].(*EIdent)
		if !ok {
			fail("athead(x): x must be a variable name")
		}
		v, ok := env.athead(id.Name)
		if !ok {
			fail("athead(%s): not a variable of this loop", id.Name)
		}
		return v
	case name == "entered":
		// entered(j) in `loop k backedge`: the iteration of loop k that ends here went through the head of loop j
		if len(x.Args) != 1 || env.entered == nil {
			fail("entered(j) needs a loop ordinal and a back edge")
		}
		lit, ok := x.Args[0].(*EInt)
		if !ok {
			fail("entered(j): j must be a literal loop ordinal")
		}
		pcj, ok := env.entered(int(lit.V.Int64()))
		if !ok {
			fail("entered(%s): no such loop inside this one", lit.V.String())
		}
		return Val{T: types.Typ[types.Bool], S: pcj}
	case name == "waitson":
		// waitson(ch) at a `site select#k`: one of the select's cases communicates on the channel ch
		if len(x.Args) != 1 {
			fail("waitson(ch) needs one channel")
		}
		if _, ok := env.vars["chan0"]; !ok {
			fail("waitson() is only meaningful at a select site")
		}
		v := env.elab(x.Args[0])
		var alts []string
		for i := 0; ; i++ {
			cv, ok := env.vars[fmt.Sprintf("chan%d", i)]
			if !ok {
				break
			}
			if c.sortOf(cv.T) != c.sortOf(v.T) {
				continue
			}
			alts = append(alts, fmt.Sprintf("(= %s %s)", cv.S, v.S))
		}
		if len(alts) == 0 {
			return Val{T: types.Typ[types.Bool], S: "false"}
		}
		return Val{T: types.Typ[types.Bool], S: "(or " + strings.Join(alts, " ") + " false)"}
	case name == "sameobject":
		// sameobject(a, b): the pointers / slices / interface-held pointers lie in the same allocated object
		root := func(x Expr) string {
			v := env.elab(x)
			switch v.T.Underlying().(type) {
			case *types.Pointer:
				return fmt.Sprintf("(rootof %s)", v.S)
			case *types.Slice:
				return fmt.Sprintf("(rootof (sbase %s))", v.S)
			case *types.Interface:
				c.declareFun("unbox_Loc", []string{"Iface"}, "Loc")
				return fmt.Sprintf("(rootof (unbox_Loc %s))", v.S)
			}
			fail("sameobject() needs pointers, slices or interfaces")
			return ""
		}
		return Val{T: types.Typ[types.Bool], S: fmt.Sprintf("(= %s %s)", root(x.Args[0]), root(x.Args[1]))}
	case name == "unbox":
		// unbox(x, T): the *T held by the interface value x (meaningful when x's dynamic type is *T)
		if len(x.Args) != 2 {
			fail("unbox(x, T) needs an interface value and a type name")
		}
		v := env.elab(x.Args[0])
		if _, ok := v.T.Underlying().(*types.Interface); !ok {
			fail("unbox() needs an interface value")
		}
		tn, ok := x.Args[1].(*EIdent)
		if !ok {
			fail("unbox(x, T): T must be a type name")
		}
		t := env.resolveType(tn.Name)
		if t == nil {
			fail("unbox(x, T): unknown type %s", tn.Name)
		}
		c.declareFun("unbox_Loc", []string{"Iface"}, "Loc")
		return Val{T: types.NewPointer(t), S: fmt.Sprintf("(unbox_Loc %s)", v.S)}
	case name == "hasprefix":
		// hasprefix(s, p): strings.HasPrefix(s, p), the same uninterpreted relation the encoder uses
		a, b := env.elab(x.Args[0]), env.elab(x.Args[1])
		if !isString(a.T) || !isString(b.T) {
			fail("hasprefix() needs strings")
		}
		c.declareFun("str_prefix", []string{"Str", "Str"}, "Bool")
		return Val{T: types.Typ[types.Bool], S: fmt.Sprintf("(str_prefix %s %s)", a.S, b.S)}
	case name == "typeof":
		v := env.elab(x.Args[0])
		return Val{T: mathOrInt(c), S: fmt.Sprintf("(iface_type %s)", v.S)}
	case name == "in":
		// in(m, k): key k is in map m
		m := env.elab(x.Args[0])
		mt, ok := m.T.Underlying().(*types.Map)
		if !ok {
			fail("in() on non-map")
		}
		k := env.coerce(env.elab(x.Args[1]), mt.Key())
		return Val{T: types.Typ[types.Bool], S: env.mapHas(m, mt, k.S)}
	}
	if sp := c.specs.lookup(name); sp != nil {
		return env.applySpec(sp, x.Args)
	}
	if t := env.resolveType(name); t != nil && len(x.Args) == 1 {
		return env.convertTo(env.elab(x.Args[0]), t)
	}
	fail("unknown function %s", name)
	return Val{}
}

func mathOrInt(c *Ctx) types.Type {
	if c.mode == ModeInt {
		return mathIntType
	}
	return types.Typ[types.Int]
}

func (env *Env) bytesToStr(v Val) string {
	// string(b): uninterpreted content-preserving conversion keyed on (memory, slice)
	c := env.c
	t := types.Typ[types.Uint8]
	key := c.arrKey(t)
	if env.memUsed != nil {
		*env.memUsed = append(*env.memUsed, memUse{key, c.arrSort(t)})
	}
	c.declareFun("bytes2str", []string{c.arrSort(t), "Slice"}, "Str")
	return fmt.Sprintf("(bytes2str %s %s)", env.mem(key, c.arrSort(t)), v.S)
}

func (env *Env) convertTo(v Val, t types.Type) Val {
	c := env.c
	if v.T == nil {
		return env.coerce(v, t)
	}
	if isInt(v.T) && isInt(t) {
		return Val{T: t, S: c.convert(v.T, t, v.S)}
	}
	if c.sortOf(v.T) == c.sortOf(t) {
		return Val{T: t, S: v.S}
	}
	if isString(t) {
		if _, ok := v.T.Underlying().(*types.Slice); ok {
			return Val{T: t, S: env.bytesToStr(v)}
		}
	}
	fail("unsupported conversion %v -> %v", v.T, t)
	return Val{}
}

// ---- spec functions ----

type compiledSpec struct {
	sp      *SpecFn
	params  []types.Type
	result  types.Type
	memUses []memUse
	text    string // full define-fun text ("" when opaque)
	opaque  bool
	deps    []string
}

type SpecEnv struct {
	pkg   *types.Package
	specs []*SpecFn
	byNm  map[string]*SpecFn
	// constGlobals: see Program.computeConstGlobals
	constGlobals map[string]bool
}

func (s *SpecEnv) lookup(name string) *SpecFn {
	if s == nil {
		return nil
	}
	return s.byNm[name]
}

func (c *Ctx) compileSpec(sp *SpecFn) *compiledSpec {
	if c.cspecs == nil {
		c.cspecs = map[string]*compiledSpec{}
	}
	if cs, ok := c.cspecs[sp.Name]; ok {
		return cs
	}
	cs := &compiledSpec{sp: sp}
	c.cspecs[sp.Name] = cs // registered before elaboration so recursion finds it
	env := &Env{c: c, pkg: sp.Pkg, vars: map[string]Val{}}
	for _, p := range sp.Params {
		t := env.resolveType(p.Type)
		if t == nil {
			panic(elabErr{fmt.Sprintf("spec %s: unknown type %s", sp.Name, p.Type)})
		}
		cs.params = append(cs.params, t)
		env.vars[p.Name] = Val{T: t, S: "p!" + p.Name}
	}
	cs.result = env.resolveType(sp.Result)
	if cs.result == nil {
		panic(elabErr{fmt.Sprintf("spec %s: unknown result type %s", sp.Name, sp.Result)})
	}
	if sp.Body == nil || (sp.Mode != "" && sp.Mode != c.mode.String()) {
		cs.opaque = true
		if sp.Content {
			// a function of the element sequence of its slice parameters: no memory arguments (applySpec
			// passes the array row, offset and length of each slice instead)
			for _, t := range cs.params {
				if st, ok := t.Underlying().(*types.Slice); ok && !scalarElem(st.Elem()) {
					panic(elabErr{fmt.Sprintf("spec content %s: slice parameters need scalar elements", sp.Name)})
				}
			}
			c.specOrder = append(c.specOrder, sp.Name)
			return cs
		}
		// opaque specs may still depend on memory for slice params: give them the memory of
		// every slice parameter element type.
		for _, t := range cs.params {
			if st, ok := t.Underlying().(*types.Slice); ok {
				cs.memUses = appendUse(cs.memUses, memUse{c.arrKey(st.Elem()), c.arrSort(st.Elem())})
			}
		}
		c.specOrder = append(c.specOrder, sp.Name)
		return cs
	}
	var uses []memUse
	env.memUsed = &uses
	env.mem = func(key, sort string) string { return "m!" + key }
	elabOnce := func() Val {
		uses = uses[:0]
		v := env.elab(sp.Body)
		v = env.coerceTo(v, cs.result)
		return v
	}
	// rec: first pass discovers memory keys, second pass uses them in self calls
	v := elabOnce()
	for _, u := range uses {
		cs.memUses = appendUse(cs.memUses, u)
	}
	if sp.Rec {
		v = elabOnce()
		for _, u := range uses {
			cs.memUses = appendUse(cs.memUses, u)
		}
	}
	var ps []string
	for i, p := range sp.Params {
		ps = append(ps, fmt.Sprintf("(p!%s %s)", p.Name, c.sortOf(cs.params[i])))
	}
	for _, u := range cs.memUses {
		ps = append(ps, fmt.Sprintf("(m!%s %s)", u.key, u.sort))
	}
	kw := "define-fun"
	if sp.Rec {
		kw = "define-fun-rec"
	}
	cs.text = fmt.Sprintf("(%s %s (%s) %s %s)", kw, sp.Name, strings.Join(ps, " "), c.sortOf(cs.result), v.S)
	if !sp.Rec {
		for _, bad := range []string{"(ite ", "(let ", "(forall ", "(exists ", "(=> ", "(and ", "(or ", "(not "} {
			if strings.Contains(v.S, bad) {
				connectiveMacros.Store(sp.Name, true)
				break
			}
		}
	}
	c.specOrder = append(c.specOrder, sp.Name)
	return cs
}

func appendUse(us []memUse, u memUse) []memUse {
	for _, x := range us {
		if x.key == u.key {
			return us
		}
	}
	return append(us, u)
}

func (env *Env) coerceTo(v Val, t types.Type) Val {
	if v.T == nil {
		return env.coerce(v, t)
	}
	if isInt(v.T) && isInt(t) {
		wa, sa, _ := intInfo(v.T)
		wb, sb, _ := intInfo(t)
		if wa != wb || sa != sb || isMathInt(v.T) != isMathInt(t) {
			fail("type mismatch: have %v want %v", v.T, t)
		}
		return Val{T: t, S: v.S}
	}
	if env.c.sortOf(v.T) != env.c.sortOf(t) {
		fail("type mismatch: have %v want %v", v.T, t)
	}
	return Val{T: t, S: v.S}
}

func (env *Env) applySpec(sp *SpecFn, args []Expr) Val {
	c := env.c
	cs := c.compileSpec(sp)
	if len(args) != len(cs.params) {
		fail("spec %s: want %d args", sp.Name, len(cs.params))
	}
	var as []string
	for i, a := range args {
		v := env.elab(a)
		v = env.coerceTo(v, cs.params[i])
		if st, ok := cs.params[i].Underlying().(*types.Slice); ok && sp.Content {
			u := memUse{c.arrKey(st.Elem()), c.arrSort(st.Elem())}
			if env.memUsed != nil {
				*env.memUsed = append(*env.memUsed, u)
			}
			as = append(as, fmt.Sprintf("(select %s (sbase %s))", env.mem(u.key, u.sort), v.S), fmt.Sprintf("(soff %s)", v.S), fmt.Sprintf("(slen %s)", v.S))
			continue
		}
		as = append(as, v.S)
	}
	for _, u := range cs.memUses {
		if env.memUsed != nil {
			*env.memUsed = append(*env.memUsed, u)
		}
		as = append(as, env.mem(u.key, u.sort))
	}
	if len(as) == 0 {
		return Val{T: cs.result, S: sp.Name}
	}
	return Val{T: cs.result, S: fmt.Sprintf("(%s %s)", sp.Name, strings.Join(as, " "))}
}

// UnfoldSpec returns the formula  f(args) == body_of_f[params := args]  for a spec function call.
func (env *Env) UnfoldSpec(x Expr) (s string, err error) {
	defer func() {
		if r := recover(); r != nil {
			if ee, ok := r.(elabErr); ok {
				err = ee
				return
			}
			panic(r)
		}
	}()
	call, ok := x.(*ECall)
	if !ok {
		return "", fmt.Errorf("unfold needs a spec function application")
	}
	id, ok := call.Fun.(*EIdent)
	if !ok {
		return "", fmt.Errorf("unfold needs a spec function application")
	}
	if id.Name == "atentry" && len(call.Args) == 1 {
		// unfold atentry(f(args)): the instance over the function's entry memory (current locals)
		if env.old == nil {
			return "", fmt.Errorf("unfold atentry(): not available here")
		}
		a := *env
		a.mem = env.old.mem
		return a.UnfoldSpec(call.Args[0])
	}
	sp := env.c.specs.lookup(id.Name)
	if sp == nil || sp.Body == nil {
		return "", fmt.Errorf("unfold: %s is not a defined spec function", id.Name)
	}
	cs := env.c.compileSpec(sp)
	if cs.opaque || len(call.Args) != len(sp.Params) {
		return "", fmt.Errorf("unfold: %s cannot be unfolded here", id.Name)
	}
	app := env.elab(call)
	if env.c.handUnfolded == nil {
		env.c.handUnfolded = map[string]bool{}
	}
	env.c.handUnfolded[id.Name] = true
	inner := env.child()
	inner.pkg = sp.Pkg
	for i, p := range sp.Params {
		v := env.elab(call.Args[i])
		inner.vars[p.Name] = inner.coerceTo(v, cs.params[i])
	}
	inner.lookup = nil
	inner.localsFirst = false
	body := inner.coerceTo(inner.elab(sp.Body), cs.result)
	return fmt.Sprintf("(= %s %s)", app.S, body.S), nil
}

// contentSpecDecl declares a content function f over (row, offset, length) triples and states that it depends
// only on the element sequence: for two applications whose other arguments agree and whose slices have the same
// length, either the values agree or some position (a Skolem function of the arguments) holds different elements.
func (c *Ctx) contentSpecDecl(n string, cs *compiledSpec) string {
	intT := types.Typ[types.Int]
	var sorts, bs1, bs2, a1, a2 []string
	var diff []string
	var skArgsS, skArgs []string
	k := 0
	for i, t := range cs.params {
		st, ok := t.Underlying().(*types.Slice)
		if !ok {
			s := c.sortOf(t)
			sorts = append(sorts, s)
			x := fmt.Sprintf("x!%d", i)
			bs1 = append(bs1, fmt.Sprintf("(%s %s)", x, s))
			a1, a2 = append(a1, x), append(a2, x)
			skArgsS, skArgs = append(skArgsS, s), append(skArgs, x)
			continue
		}
		row := fmt.Sprintf("(Array %s %s)", c.idx(), c.sortOf(st.Elem()))
		sorts = append(sorts, row, c.idx(), c.idx())
		ra, rb, oa, ob, l := fmt.Sprintf("a!%d", i), fmt.Sprintf("b!%d", i), fmt.Sprintf("oa!%d", i), fmt.Sprintf("ob!%d", i), fmt.Sprintf("l!%d", i)
		bs1 = append(bs1, fmt.Sprintf("(%s %s) (%s %s) (%s %s)", ra, row, oa, c.idx(), l, c.idx()))
		bs2 = append(bs2, fmt.Sprintf("(%s %s) (%s %s)", rb, row, ob, c.idx()))
		a1, a2 = append(a1, ra, oa, l), append(a2, rb, ob, l)
		skArgsS = append(skArgsS, row, row, c.idx(), c.idx(), c.idx())
		skArgs = append(skArgs, ra, rb, oa, ob, l)
		k++
		_ = diff
	}
	res := c.sortOf(cs.result)
	out := fmt.Sprintf("(declare-fun %s (%s) %s)\n", n, strings.Join(sorts, " "), res)
	if k == 0 {
		return out
	}
	// one Skolem position per slice parameter
	var alts []string
	for i, t := range cs.params {
		if _, ok := t.Underlying().(*types.Slice); !ok {
			continue
		}
		sk := fmt.Sprintf("%s!sk%d", n, i)
		out += fmt.Sprintf("(declare-fun %s (%s) %s)\n", sk, strings.Join(skArgsS, " "), c.idx())
		p := fmt.Sprintf("(%s %s)", sk, strings.Join(skArgs, " "))
		ra, rb, oa, ob, l := fmt.Sprintf("a!%d", i), fmt.Sprintf("b!%d", i), fmt.Sprintf("oa!%d", i), fmt.Sprintf("ob!%d", i), fmt.Sprintf("l!%d", i)
		alts = append(alts, and(c.cmp("<=", intT, c.idxLit(0), p), c.cmp("<", intT, p, l),
			fmt.Sprintf("(not (= (select %s %s) (select %s %s)))", ra, c.binopIdx("+", oa, p), rb, c.binopIdx("+", ob, p))))
	}
	f1 := fmt.Sprintf("(%s %s)", n, strings.Join(a1, " "))
	f2 := fmt.Sprintf("(%s %s)", n, strings.Join(a2, " "))
	out += fmt.Sprintf("(assert (forall (%s %s) (! (or (= %s %s) %s) :pattern (%s %s))))\n", strings.Join(bs1, " "), strings.Join(bs2, " "), f1, f2, strings.Join(alts, " "), f1, f2)
	return out
}

func (s *SpecEnv) emit(c *Ctx) string {
	var sb strings.Builder
	for _, n := range c.specOrder {
		cs := c.cspecs[n]
		// a spec function that the contract unfolds by hand is left uninterpreted in this context: the
		// explicit instances are all the solver needs, and recursive definitions make it diverge
		if cs.opaque && cs.sp.Content {
			sb.WriteString(c.contentSpecDecl(n, cs))
			continue
		}
		if cs.opaque || c.handUnfolded[n] {
			var ps []string
			for _, t := range cs.params {
				ps = append(ps, c.sortOf(t))
			}
			for _, u := range cs.memUses {
				ps = append(ps, u.sort)
			}
			sb.WriteString(fmt.Sprintf("(declare-fun %s (%s) %s)\n", n, strings.Join(ps, " "), c.sortOf(cs.result)))
		} else {
			sb.WriteString(cs.text + "\n")
		}
	}
	return sb.String()
}
