package main

// Atomic-field transition audits (package-wide).
//
//   //@ audit atomic shareAckState.status
//   //@   prop C12
//   //@   transitions 0->*, 4->*
//   //@   init-store (*source).handleShareReqResp
//
// The audited field is a sync/atomic typed value (atomic.Int32, atomic.Uint32, ...) inside a struct of
// the package. The audit enumerates EVERY access to the field in EVERY function of the package (closures
// included) on every run and produces one obligation per access:
//
//   * CompareAndSwap(old, new): (old, new) must be an allowed transition. Constant arguments are decided
//     syntactically; symbolic ones are proved by the encoder under the path condition of the call, in
//     which case the enclosing function must be under contract for the audit's property;
//   * Store(v) / Swap(v): allowed only when `*->v` is listed; Add/And/Or: never allowed;
//   * the address of the field may only be used as the receiver of a direct atomic method call
//     (otherwise an alias could be used to write it unseen);
//   * a plain store of a whole struct value that contains the field (re-initialisation) is allowed only in
//     the functions listed under init-store.
//
// Because every successful CompareAndSwap has, by the atomicity of the operation, exactly its expected
// value as the old value, "every write site performs an allowed transition" holds for ALL interleavings:
// no assumption about other threads is used. Lemmas over the transition relation (e.g. "states 1,2,3 are
// absorbing") are then facts about every execution.

import (
	"fmt"
	"go/constant"
	"go/types"
	"math/big"
	"sort"
	"strconv"
	"strings"

	"golang.org/x/tools/go/ssa"
	"golang.org/x/tools/go/ssa/ssautil"
)

type Transition struct {
	From, To       int64
	AnyFrom, AnyTo bool
}

type Audit struct {
	Kind       string   // "atomic" | "initonly" | "calls"
	Names      []string // initonly: package-level variables and Type.field names
	Callee     string   // calls: function name or (recv).method as go/ssa prints it without the package
	Except     string   // calls: a function whose own calls of Callee are not counted
	Assert     Clause   // calls: what holds of the arguments at every call site
	TypeName   string
	Field      string
	Props      []string
	Trans      []Transition
	Deltas     []int64 // counter fields: Add(d) with d listed is the only allowed write
	InitStores []string
	Line       int
	File       string
	Text       string
}

type auditRef struct {
	a   *Audit
	pkg *ssa.Package
}

func parseTransitions(s string) ([]Transition, error) {
	var out []Transition
	for _, part := range splitTop(s) {
		part = strings.TrimSpace(part)
		if part == "" {
			continue
		}
		ab := strings.Split(part, "->")
		if len(ab) != 2 {
			return nil, fmt.Errorf("bad transition %q", part)
		}
		var t Transition
		a, b := strings.TrimSpace(ab[0]), strings.TrimSpace(ab[1])
		if a == "*" {
			t.AnyFrom = true
		} else {
			v, err := strconv.ParseInt(a, 0, 64)
			if err != nil {
				return nil, fmt.Errorf("bad transition %q", part)
			}
			t.From = v
		}
		if b == "*" {
			t.AnyTo = true
		} else {
			v, err := strconv.ParseInt(b, 0, 64)
			if err != nil {
				return nil, fmt.Errorf("bad transition %q", part)
			}
			t.To = v
		}
		out = append(out, t)
	}
	return out, nil
}

func (a *Audit) transText() string {
	var ps []string
	for _, t := range a.Trans {
		f, to := strconv.FormatInt(t.From, 10), strconv.FormatInt(t.To, 10)
		if t.AnyFrom {
			f = "*"
		}
		if t.AnyTo {
			to = "*"
		}
		ps = append(ps, f+"->"+to)
	}
	return strings.Join(ps, ", ")
}

// allowedConst: is (from, to) an allowed transition? anyFrom: the old value is unknown (Store/Swap).
func (a *Audit) allowedConst(from int64, anyFrom bool, to int64) bool {
	for _, t := range a.Trans {
		fromOK := t.AnyFrom || (!anyFrom && t.From == from)
		toOK := t.AnyTo || t.To == to
		if fromOK && toOK {
			return true
		}
	}
	return false
}

// allowedFormula: SMT formula "(old,new) is an allowed transition" over two terms of the field's type.
func (a *Audit) allowedFormula(c *Ctx, ft types.Type, old string, anyFrom bool, nw string) string {
	var ds []string
	for _, t := range a.Trans {
		var cs []string
		if !t.AnyFrom {
			if anyFrom {
				continue
			}
			cs = append(cs, fmt.Sprintf("(= %s %s)", old, c.lit(ft, big.NewInt(t.From))))
		}
		if !t.AnyTo {
			cs = append(cs, fmt.Sprintf("(= %s %s)", nw, c.lit(ft, big.NewInt(t.To))))
		}
		ds = append(ds, and(cs...))
	}
	if len(ds) == 0 {
		return "false"
	}
	return or(ds...)
}

// auditFor: the audit (if any) that covers field fi of the struct pointed to by the receiver expression type.
func (p *Program) auditFor(fa *ssa.FieldAddr) *Audit {
	if fa == nil || len(p.audits) == 0 {
		return nil
	}
	pt, ok := fa.X.Type().Underlying().(*types.Pointer)
	if !ok {
		return nil
	}
	nt, ok := pt.Elem().(*types.Named)
	if !ok {
		return nil
	}
	st, ok := nt.Underlying().(*types.Struct)
	if !ok {
		return nil
	}
	for _, ar := range p.audits {
		if nt.Obj().Name() == ar.a.TypeName && nt.Obj().Pkg() == ar.pkg.Pkg && st.Field(fa.Field).Name() == ar.a.Field {
			return ar.a
		}
	}
	return nil
}

func sharesProp(a, b []string) bool {
	for _, x := range a {
		if contains(b, x) {
			return true
		}
	}
	return false
}

// containsNamed: does a value of type t contain (by value) a struct of the named type?
func containsNamed(t types.Type, obj *types.TypeName, depth int) bool {
	if depth > 8 {
		return false
	}
	if nt, ok := t.(*types.Named); ok && nt.Obj() == obj {
		return true
	}
	switch u := t.Underlying().(type) {
	case *types.Struct:
		for i := 0; i < u.NumFields(); i++ {
			if containsNamed(u.Field(i).Type(), obj, depth+1) {
				return true
			}
		}
	case *types.Array:
		return containsNamed(u.Elem(), obj, depth+1)
	}
	return false
}

func atomicMethodOf(in ssa.Instruction) (*ssa.CallCommon, string) {
	ci, ok := in.(ssa.CallInstruction)
	if !ok {
		return nil, ""
	}
	cm := ci.Common()
	callee := cm.StaticCallee()
	if callee == nil || !strings.HasPrefix(callee.String(), "(*sync/atomic.") {
		return nil, ""
	}
	return cm, callee.Name()
}

func constInt(v ssa.Value) (int64, bool) {
	for {
		switch x := v.(type) {
		case *ssa.Const:
			if x.Value == nil {
				return 0, false
			}
			return x.Int64(), true
		case *ssa.Convert:
			v = x.X
		case *ssa.ChangeType:
			v = x.X
		default:
			return 0, false
		}
	}
}

// runInitOnly: `audit initonly g1, T.f`: no function of the package other than the package initialiser stores to
// the listed package-level variables or struct fields, updates / deletes from a map loaded from one of the
// variables, or lets a variable's address or the map it holds escape (to a call, a store, a closure). One
// obligation per listed name: true when no such site exists, false (with the first site in its text) otherwise.
func (p *Program) runInitOnly(ar *auditRef, all map[*ssa.Function]bool) (obls []*Obligation, errs []string) {
	a := ar.a
	allowed := map[string]bool{}
	for _, n := range strings.Split(a.Except, ";") {
		if n = strings.TrimSpace(n); n != "" {
			allowed[n] = true
		}
	}
	var fns []*ssa.Function
	for fn := range all {
		if len(fn.Blocks) > 0 && fnTypesPkg(fn) == ar.pkg.Pkg && fn.Synthetic != "package initializer" &&
			!allowed[strings.TrimPrefix(qualName(fn), ar.pkg.Pkg.Name()+".")] {
			fns = append(fns, fn)
		}
	}
	sort.Slice(fns, func(i, j int) bool { return fns[i].String() < fns[j].String() })
	for _, name := range a.Names {
		name = strings.TrimSpace(name)
		var bad []string
		if tf := strings.SplitN(name, ".", 2); len(tf) == 2 {
			// a struct field: stores through a FieldAddr of that field, or the field's address escaping
			obj, _ := ar.pkg.Pkg.Scope().Lookup(tf[0]).(*types.TypeName)
			if obj == nil {
				errs = append(errs, fmt.Sprintf("%s:%d: audit initonly: type %s not found", a.File, a.Line, tf[0]))
				continue
			}
			for _, fn := range fns {
				for _, b := range fn.Blocks {
					for _, in := range b.Instrs {
						fa, ok := in.(*ssa.FieldAddr)
						if !ok {
							continue
						}
						pt, ok := fa.X.Type().Underlying().(*types.Pointer)
						if !ok || !types.Identical(pt.Elem(), obj.Type()) {
							continue
						}
						st := obj.Type().Underlying().(*types.Struct)
						if st.Field(fa.Field).Name() != tf[1] {
							continue
						}
						for _, r := range *fa.Referrers() {
							switch r := r.(type) {
							case *ssa.UnOp, *ssa.DebugRef:
							case *ssa.Store:
								bad = append(bad, fmt.Sprintf("%s stores to %s at %s", qualName(fn), name, p.prog.Fset.Position(r.Pos())))
							default:
								bad = append(bad, fmt.Sprintf("%s lets &%s escape at %s", qualName(fn), name, p.prog.Fset.Position(r.Pos())))
							}
						}
					}
				}
			}
		} else {
			g, _ := ar.pkg.Members[name].(*ssa.Global)
			if g == nil {
				errs = append(errs, fmt.Sprintf("%s:%d: audit initonly: no package-level variable %s", a.File, a.Line, name))
				continue
			}
			for _, fn := range fns {
				for _, b := range fn.Blocks {
					for _, in := range b.Instrs {
						for _, op := range in.Operands(nil) {
							if *op != ssa.Value(g) {
								continue
							}
							switch r := in.(type) {
							case *ssa.DebugRef:
							case *ssa.UnOp:
								// a load: what is loaded must not be mutated or escape when it is a map
								if _, isMap := r.Type().Underlying().(*types.Map); isMap {
									for _, rr := range *r.Referrers() {
										switch rr := rr.(type) {
										case *ssa.Lookup, *ssa.DebugRef, *ssa.Range:
										case *ssa.Call:
											if bi, ok := rr.Call.Value.(*ssa.Builtin); ok && bi.Name() == "len" {
												continue
											}
											bad = append(bad, fmt.Sprintf("%s passes the map %s to a call at %s", qualName(fn), name, p.prog.Fset.Position(rr.Pos())))
										default:
											bad = append(bad, fmt.Sprintf("%s updates or leaks the map %s at %s", qualName(fn), name, p.prog.Fset.Position(rr.Pos())))
										}
									}
								}
							case *ssa.Store:
								if r.Addr == ssa.Value(g) {
									bad = append(bad, fmt.Sprintf("%s stores to %s at %s", qualName(fn), name, p.prog.Fset.Position(r.Pos())))
								} else {
									bad = append(bad, fmt.Sprintf("%s stores &%s at %s", qualName(fn), name, p.prog.Fset.Position(r.Pos())))
								}
							default:
								bad = append(bad, fmt.Sprintf("%s lets &%s escape at %s", qualName(fn), name, p.prog.Fset.Position(in.Pos())))
							}
						}
					}
				}
			}
		}
		c := NewCtx(ModeInt, p.specs)
		who := "the package initialiser only"
		if len(allowed) > 0 {
			who = fmt.Sprintf("the package initialiser and the %d listed functions only", len(allowed))
		}
		goal, text := "true", fmt.Sprintf("%s is written by %s (%d other functions scanned)", name, who, len(fns))
		if len(bad) > 0 {
			goal, text = "false", text+": "+bad[0]
		}
		obls = append(obls, &Obligation{Name: fmt.Sprintf("%s/initonly %s#0", ar.pkg.Pkg.Name(), name), Fn: ar.pkg.Pkg.Name() + ".init", Kind: "initonly " + name, Text: text, Props: a.Props, ctx: c, pos: 0, pc: "true", goal: goal})
	}
	return obls, errs
}

// runCallsAudit: `audit calls F assert P`: one obligation per static call of F in the package (P over the
// arguments: constants where the call passes constants, unconstrained values otherwise), plus one obligation that
// F is never used as a value (so that there are no other calls).
func (p *Program) runCallsAudit(ar *auditRef, all map[*ssa.Function]bool) (obls []*Obligation, errs []string) {
	a := ar.a
	var target *ssa.Function
	var fns []*ssa.Function
	for fn := range all {
		if fnTypesPkg(fn) != ar.pkg.Pkg {
			continue
		}
		if len(fn.Blocks) > 0 {
			fns = append(fns, fn)
		}
		if strings.TrimPrefix(qualName(fn), ar.pkg.Pkg.Name()+".") == a.Callee {
			target = fn
		}
	}
	if target == nil {
		return nil, []string{fmt.Sprintf("%s:%d: audit calls: no function %s in package %s", a.File, a.Line, a.Callee, ar.pkg.Pkg.Name())}
	}
	sort.Slice(fns, func(i, j int) bool { return fns[i].String() < fns[j].String() })
	leaks := ""
	for _, fn := range fns {
		k := 0
		if a.Except != "" && strings.TrimPrefix(qualName(fn), ar.pkg.Pkg.Name()+".") == a.Except {
			continue
		}
		for _, b := range fn.Blocks {
			for _, in := range b.Instrs {
				ci, isCall := in.(ssa.CallInstruction)
				if isCall && ci.Common().StaticCallee() == target {
					cm := ci.Common()
					c := NewCtx(ModeInt, p.specs)
					st := &State{mem: map[string]string{}, epoch: "0", ctr: "ctr0"}
					c.declare("ctr0", "Int")
					env := &Env{c: c, pkg: ar.pkg.Pkg, vars: map[string]Val{}, mem: st.memFn(c)}
					var shown []string
					for i, arg := range cm.Args {
						name := fmt.Sprintf("arg%d", i)
						if kc, ok := arg.(*ssa.Const); ok && kc.Value != nil && kc.Value.Kind() == constant.Int && isInt(kc.Type().Underlying()) {
							if v, ok := new(big.Int).SetString(kc.Value.ExactString(), 10); ok {
								env.vars[name] = Val{T: kc.Type(), S: c.lit(kc.Type(), v)}
								shown = append(shown, v.String())
								continue
							}
						}
						if kc, ok := arg.(*ssa.Const); ok && kc.Value != nil && kc.Value.Kind() == constant.Bool {
							bs := "false"
							if constant.BoolVal(kc.Value) {
								bs = "true"
							}
							env.vars[name] = Val{T: kc.Type(), S: bs}
							shown = append(shown, bs)
							continue
						}
						srt := c.sortOf(arg.Type())
						if strings.Contains(srt, "?") {
							shown = append(shown, "_")
							continue
						}
						n := c.fresh(name)
						c.declare(n, srt)
						env.vars[name] = Val{T: arg.Type(), S: n}
						shown = append(shown, "_")
					}
					goal, err := env.ElabBool(a.Assert.E)
					if err != nil {
						errs = append(errs, fmt.Sprintf("%s:%d: audit calls %s at %s: %v", a.File, a.Line, a.Callee, p.prog.Fset.Position(in.Pos()), err))
						continue
					}
					kind := "calls " + a.Callee
					if a.Assert.Tag != "" {
						kind += " " + a.Assert.Tag
					}
					obls = append(obls, &Obligation{Name: fmt.Sprintf("%s/%s#%d", qualName(fn), kind, k), Fn: qualName(fn), Kind: kind,
						Text: fmt.Sprintf("%s(%s): %s", a.Callee, strings.Join(shown, ", "), a.Assert.Text), Props: a.Props, ctx: c, pos: 0, pc: "true", goal: goal})
					k++
					continue
				}
				// any other use of the function as a value
				for _, op := range in.Operands(nil) {
					if *op == ssa.Value(target) {
						if isCall && ci.Common().Value == ssa.Value(target) {
							continue
						}
						leaks = fmt.Sprintf("%s uses %s as a value at %s", qualName(fn), a.Callee, p.prog.Fset.Position(in.Pos()))
					}
				}
			}
		}
	}
	c := NewCtx(ModeInt, p.specs)
	goal, text := "true", fmt.Sprintf("%s is only ever called directly (%d functions scanned)", a.Callee, len(fns))
	if leaks != "" {
		goal, text = "false", text+": "+leaks
	}
	obls = append(obls, &Obligation{Name: fmt.Sprintf("%s/calls %s only-direct#0", ar.pkg.Pkg.Name(), a.Callee), Fn: ar.pkg.Pkg.Name() + "." + a.Callee, Kind: "calls " + a.Callee, Text: text, Props: a.Props, ctx: c, pos: 0, pc: "true", goal: goal})
	return obls, errs
}

// runAudits: the package-wide scan. Returns syntactic obligations (goal true/false) and errors.
func (p *Program) runAudits(prop string) (obls []*Obligation, errs []string) {
	if len(p.audits) == 0 {
		return nil, nil
	}
	all := ssautil.AllFunctions(p.prog)
	for _, ar := range p.audits {
		a := ar.a
		if prop != "" && !contains(a.Props, prop) {
			continue
		}
		if a.Kind == "initonly" {
			o, es := p.runInitOnly(ar, all)
			obls, errs = append(obls, o...), append(errs, es...)
			continue
		}
		if a.Kind == "calls" {
			o, es := p.runCallsAudit(ar, all)
			obls, errs = append(obls, o...), append(errs, es...)
			continue
		}
		obj, _ := ar.pkg.Pkg.Scope().Lookup(a.TypeName).(*types.TypeName)
		if obj == nil {
			errs = append(errs, fmt.Sprintf("%s:%d: audit: type %s not found in %s", a.File, a.Line, a.TypeName, ar.pkg.Pkg.Path()))
			continue
		}
		st, ok := obj.Type().Underlying().(*types.Struct)
		fieldOK := false
		if ok {
			for i := 0; i < st.NumFields(); i++ {
				if st.Field(i).Name() == a.Field && strings.HasPrefix(st.Field(i).Type().String(), "sync/atomic.") {
					fieldOK = true
				}
			}
		}
		if !fieldOK {
			errs = append(errs, fmt.Sprintf("%s:%d: audit: %s.%s is not a sync/atomic typed field", a.File, a.Line, a.TypeName, a.Field))
			continue
		}
		var fns []*ssa.Function
		for fn := range all {
			if len(fn.Blocks) > 0 && fnTypesPkg(fn) == ar.pkg.Pkg {
				fns = append(fns, fn)
			}
		}
		sort.Slice(fns, func(i, j int) bool { return fns[i].String() < fns[j].String() })
		what := a.TypeName + "." + a.Field
		mk := func(fn *ssa.Function, kind string, k int, text string, good bool) {
			c := NewCtx(ModeInt, p.specs)
			goal := "false"
			if good {
				goal = "true"
			}
			name := fmt.Sprintf("%s/%s#%d", qualName(fn), kind, k)
			obls = append(obls, &Obligation{Name: name, Fn: qualName(fn), Kind: kind, Text: text, Props: a.Props, ctx: c, pos: 0, pc: "true", goal: goal})
		}
		sites := 0
		for _, fn := range fns {
			fc := p.contractFor(fn)
			covered := fc != nil && !fc.Trusted && sharesProp(fc.Props, a.Props)
			counts := map[string]int{}
			next := func(kind string) int { k := counts[kind]; counts[kind]++; return k }
			// instructions in source order so that ordinals are stable under block reordering
			var ins []ssa.Instruction
			for _, b := range fn.Blocks {
				ins = append(ins, b.Instrs...)
			}
			sort.SliceStable(ins, func(i, j int) bool { return ins[i].Pos() < ins[j].Pos() })
			for _, in := range ins {
				switch x := in.(type) {
				case *ssa.FieldAddr:
					if p.auditFor(x) != a {
						continue
					}
					for _, r := range *x.Referrers() {
						if _, ok := r.(*ssa.DebugRef); ok {
							continue
						}
						cm, _ := atomicMethodOf(r)
						if cm == nil || len(cm.Args) == 0 || cm.Args[0] != ssa.Value(x) {
							mk(fn, "atomic "+what+" addr-escape", next("escape"), "the address of "+what+" is only used as the receiver of a direct atomic operation", false)
							continue
						}
						for _, arg := range cm.Args[1:] {
							if arg == ssa.Value(x) {
								mk(fn, "atomic "+what+" addr-escape", next("escape"), "the address of "+what+" is only used as the receiver of a direct atomic operation", false)
							}
						}
					}
				case *ssa.Store:
					if pt, ok := x.Addr.Type().Underlying().(*types.Pointer); ok && containsNamed(pt.Elem(), obj, 0) {
						key := fn.RelString(ar.pkg.Pkg)
						good := contains(a.InitStores, key)
						mk(fn, "atomic "+what+" plain-store", next("plain"), "a plain (non-atomic) store of a whole "+a.TypeName+" value happens only in the listed initialisation functions ("+strings.Join(a.InitStores, ", ")+")", good)
						sites++
					}
				default:
					cm, op := atomicMethodOf(in)
					if cm == nil || len(cm.Args) == 0 {
						continue
					}
					fa, _ := cm.Args[0].(*ssa.FieldAddr)
					if p.auditFor(fa) != a {
						continue
					}
					switch op {
					case "Load":
					case "CompareAndSwap":
						sites++
						k := next("cas")
						o, ok1 := constInt(cm.Args[1])
						n, ok2 := constInt(cm.Args[2])
						text := fmt.Sprintf("CompareAndSwap(%s, %s) on %s performs one of the allowed transitions {%s}", cm.Args[1].Name(), cm.Args[2].Name(), what, a.transText())
						switch {
						case covered:
							// proved by the encoder under the call's path condition (obligation emitted there)
						case ok1 && ok2:
							mk(fn, "atomic "+what+" CompareAndSwap", k, fmt.Sprintf("CompareAndSwap(%d, %d) on %s is one of the allowed transitions {%s}", o, n, what, a.transText()), a.allowedConst(o, false, n))
						case ok1 && a.allowedAnyTo(o):
							mk(fn, "atomic "+what+" CompareAndSwap", k, fmt.Sprintf("CompareAndSwap(%d, _) on %s: every transition from %d is allowed by {%s}", o, what, o, a.transText()), true)
						default:
							mk(fn, "atomic "+what+" CompareAndSwap", k, text+" (symbolic arguments in a function that is not under contract for "+strings.Join(a.Props, ",")+")", false)
						}
					case "Store", "Swap":
						sites++
						k := next(op)
						n, ok := constInt(cm.Args[1])
						if covered {
							continue
						}
						mk(fn, "atomic "+what+" "+op, k, fmt.Sprintf("%s(%s) on %s is allowed from every state by {%s}", op, cm.Args[1].Name(), what, a.transText()), ok && a.allowedConst(0, true, n))
					default:
						sites++
						if op == "Add" && len(a.Deltas) > 0 {
							d, ok := constInt(cm.Args[1])
							good := false
							for _, x := range a.Deltas {
								good = good || (ok && x == d)
							}
							mk(fn, "atomic "+what+" Add", next(op), fmt.Sprintf("Add(%s) on the counter %s adds one of the listed constants %v", cm.Args[1].Name(), what, a.Deltas), good)
							continue
						}
						mk(fn, "atomic "+what+" "+op, next(op), fmt.Sprintf("%s on %s is not a transition the audit can allow", op, what), false)
					}
				}
			}
		}
		if sites == 0 {
			errs = append(errs, fmt.Sprintf("%s:%d: audit %s: no write site found in the package (anchor lost)", a.File, a.Line, what))
		}
	}
	return obls, errs
}

func (a *Audit) allowedAnyTo(from int64) bool {
	for _, t := range a.Trans {
		if (t.AnyFrom || t.From == from) && t.AnyTo {
			return true
		}
	}
	return false
}

// auditAtomicOp is called by the encoder for every atomic operation it encodes; when the field is audited
// and the function is under contract for the audit's property, the transition obligation is emitted here
// (symbolic arguments, path condition of the call).
func (e *Encoder) auditAtomicOp(op string, cm *ssa.CallCommon, ft types.Type, loc string, args []Val, st *State, pc string) {
	fa, _ := cm.Args[0].(*ssa.FieldAddr)
	a := e.prog.auditFor(fa)
	if a == nil || e.fc == nil || !sharesProp(e.fc.Props, a.Props) {
		return
	}
	what := a.TypeName + "." + a.Field
	c := e.c
	switch op {
	case "CompareAndSwap":
		goal := a.allowedFormula(c, ft, args[1].S, false, args[2].S)
		e.addObl("atomic "+what+" CompareAndSwap", fmt.Sprintf("CompareAndSwap(%s, %s) on %s performs one of the allowed transitions {%s}", cm.Args[1].Name(), cm.Args[2].Name(), what, a.transText()), pc, goal)
	case "Store", "Swap":
		// a Store is checked as a transition from the value this thread last observed (the field's value in the
		// thread's sequential view: what it loaded on this path, or arbitrary when it never looked)
		obs := e.load(st, loc, ft)
		goal := a.allowedFormula(c, ft, obs.S, false, args[1].S)
		e.addObl("atomic "+what+" "+op, fmt.Sprintf("%s(%s) on %s, from the value this thread last observed, is one of the allowed transitions {%s}", op, cm.Args[1].Name(), what, a.transText()), pc, goal)
	}
}
