package main

// Contract expression language: lexer + Pratt parser.
//
//   e ::= ident | int | 'c' | "str" | true | false | nil
//       | e.f | e[i] | e[lo:hi] | e[lo:hi:max] | f(e,...) | T(e)
//       | !e | -e | ^e | e op e | (e)
//       | old(e) | ite(c,a,b)
//       | forall i in lo..hi :: P | exists i in lo..hi :: P
//       | forall x T :: P        | exists x T :: P
//   op (loosest to tightest): <==>  ==>  ||  &&  == != < <= > >=  + - | ^  * / % << >> & &^
//
// Precedence of Go operators is Go's.

import (
	"fmt"
	"math/big"
	"strings"
	"unicode"
)

type Expr interface{}

type (
	EIdent  struct{ Name string }
	EInt    struct{ V *big.Int }
	EStr    struct{ V string }
	EBool   struct{ V bool }
	ENil    struct{}
	EUnary  struct {
		Op string
		X  Expr
	}
	EBinary struct {
		Op   string
		X, Y Expr
	}
	ECall struct {
		Fun  Expr
		Args []Expr
	}
	EIndex struct{ X, I Expr }
	ESlice struct{ X, Lo, Hi, Max Expr }
	ESel   struct {
		X    Expr
		Name string
	}
	// EStar is a pointer dereference *e.
	EStar  struct{ X Expr }
	EQuant struct {
		Forall bool
		Vars   []string
		Lo, Hi Expr   // range form (nil when typed form)
		Type   string // typed form
		Body   Expr
	}
)

type tokn struct {
	kind string // id int str chr op eof
	s    string
	pos  int
}

type lexer struct {
	src  string
	toks []tokn
}

var ops3 = []string{"<==>", "==>", "&&", "||", "==", "!=", "<=", ">=", "<<", ">>", "&^", "::", "..", "++"}

func lex(src string) ([]tokn, error) {
	var toks []tokn
	i := 0
	for i < len(src) {
		c := src[i]
		switch {
		case c == ' ' || c == '\t' || c == '\n':
			i++
		case c == '/' && i+1 < len(src) && src[i+1] == '/':
			i = len(src) // trailing comment
		case unicode.IsLetter(rune(c)) || c == '_' || c == '$':
			j := i
			for j < len(src) && (unicode.IsLetter(rune(src[j])) || unicode.IsDigit(rune(src[j])) || src[j] == '_' || src[j] == '$' || src[j] == '@') {
				j++
			}
			toks = append(toks, tokn{"id", src[i:j], i})
			i = j
		case unicode.IsDigit(rune(c)):
			j := i
			for j < len(src) && (unicode.IsDigit(rune(src[j])) || unicode.IsLetter(rune(src[j])) || src[j] == '_') {
				j++
			}
			toks = append(toks, tokn{"int", src[i:j], i})
			i = j
		case c == '"':
			j := i + 1
			for j < len(src) && src[j] != '"' {
				if src[j] == '\\' {
					j++
				}
				j++
			}
			if j >= len(src) {
				return nil, fmt.Errorf("unterminated string at %d", i)
			}
			toks = append(toks, tokn{"str", src[i : j+1], i})
			i = j + 1
		case c == '\'':
			j := i + 1
			for j < len(src) && src[j] != '\'' {
				if src[j] == '\\' {
					j++
				}
				j++
			}
			toks = append(toks, tokn{"chr", src[i : j+1], i})
			i = j + 1
		default:
			matched := false
			for _, o := range ops3 {
				if strings.HasPrefix(src[i:], o) {
					toks = append(toks, tokn{"op", o, i})
					i += len(o)
					matched = true
					break
				}
			}
			if !matched {
				toks = append(toks, tokn{"op", string(c), i})
				i++
			}
		}
	}
	toks = append(toks, tokn{"eof", "", len(src)})
	return toks, nil
}

type exprParser struct {
	toks []tokn
	p    int
	src  string
}

func (p *exprParser) peek() tokn { return p.toks[p.p] }
func (p *exprParser) next() tokn  { t := p.toks[p.p]; p.p++; return t }
func (p *exprParser) accept(s string) bool {
	if t := p.peek(); (t.kind == "op" || t.kind == "id") && t.s == s {
		p.p++
		return true
	}
	return false
}
func (p *exprParser) expect(s string) {
	if !p.accept(s) {
		panic(fmt.Errorf("expected %q at %d in %q (got %q)", s, p.peek().pos, p.src, p.peek().s))
	}
}

var binPrec = map[string]int{
	"<==>": 1, "==>": 2, "||": 3, "&&": 4,
	"==": 5, "!=": 5, "<": 5, "<=": 5, ">": 5, ">=": 5,
	"+": 6, "-": 6, "|": 6, "^": 6,
	"*": 7, "/": 7, "%": 7, "<<": 7, ">>": 7, "&": 7, "&^": 7,
}

func ParseExpr(src string) (e Expr, err error) {
	defer func() {
		if r := recover(); r != nil {
			if er, ok := r.(error); ok {
				err = er
				return
			}
			panic(r)
		}
	}()
	toks, err := lex(src)
	if err != nil {
		return nil, err
	}
	p := &exprParser{toks: toks, src: src}
	e = p.expr(0)
	if p.peek().kind != "eof" {
		return nil, fmt.Errorf("trailing input at %d in %q", p.peek().pos, src)
	}
	return e, nil
}

func (p *exprParser) expr(min int) Expr {
	// quantifiers bind loosest
	if t := p.peek(); t.kind == "id" && (t.s == "forall" || t.s == "exists") {
		// (a Go variable may be called `exists`: a quantifier is the keyword followed by its bound variable)
		if p.p+1 < len(p.toks) && p.toks[p.p+1].kind == "id" {
			return p.quant()
		}
	}
	x := p.unary()
	for {
		t := p.peek()
		if t.kind != "op" {
			return x
		}
		pr, ok := binPrec[t.s]
		if !ok || pr < min {
			return x
		}
		p.next()
		var y Expr
		if t.s == "==>" { // right assoc
			y = p.expr(pr)
		} else {
			y = p.expr(pr + 1)
		}
		x = &EBinary{t.s, x, y}
	}
}

func (p *exprParser) quant() Expr {
	t := p.next()
	q := &EQuant{Forall: t.s == "forall"}
	for {
		id := p.next()
		if id.kind != "id" {
			panic(fmt.Errorf("quantifier variable expected in %q", p.src))
		}
		q.Vars = append(q.Vars, id.s)
		if !p.accept(",") {
			break
		}
	}
	if p.accept("in") {
		q.Lo = p.expr(6)
		p.expect("..")
		q.Hi = p.expr(6)
	} else {
		// type: ident or [] ident or pkg.ident
		var sb strings.Builder
		for p.peek().s != "::" && p.peek().kind != "eof" {
			sb.WriteString(p.next().s)
		}
		q.Type = sb.String()
	}
	p.expect("::")
	q.Body = p.expr(0)
	return q
}

func (p *exprParser) unary() Expr {
	t := p.peek()
	if t.kind == "op" {
		switch t.s {
		case "!", "-", "^", "&":
			// (prefix & is address-of: &x.f, &s[i])
			p.next()
			return &EUnary{t.s, p.unary()}
		case "*":
			p.next()
			return &EStar{p.unary()}
		}
	}
	return p.postfix(p.primary())
}

func (p *exprParser) primary() Expr {
	t := p.next()
	switch t.kind {
	case "int":
		v, ok := new(big.Int).SetString(strings.ReplaceAll(t.s, "_", ""), 0)
		if !ok {
			panic(fmt.Errorf("bad int %q", t.s))
		}
		return &EInt{v}
	case "str":
		s := t.s[1 : len(t.s)-1]
		s = unescape(s)
		return &EStr{s}
	case "chr":
		s := unescape(t.s[1 : len(t.s)-1])
		return &EInt{big.NewInt(int64([]rune(s)[0]))}
	case "id":
		switch t.s {
		case "true":
			return &EBool{true}
		case "false":
			return &EBool{false}
		case "nil":
			return &ENil{}
		}
		return &EIdent{t.s}
	case "op":
		if t.s == "(" {
			// could be a parenthesised pointer type conversion; not supported
			e := p.expr(0)
			p.expect(")")
			return e
		}
		if t.s == "[" { // slice type like []byte(x)
			p.expect("]")
			id := p.next()
			return &EIdent{"[]" + id.s}
		}
	}
	panic(fmt.Errorf("unexpected token %q at %d in %q", t.s, t.pos, p.src))
}

func unescape(s string) string {
	var sb strings.Builder
	for i := 0; i < len(s); i++ {
		if s[i] == '\\' && i+1 < len(s) {
			i++
			switch s[i] {
			case 'n':
				sb.WriteByte('\n')
			case 't':
				sb.WriteByte('\t')
			case 'r':
				sb.WriteByte('\r')
			case '0':
				sb.WriteByte(0)
			case 'x':
				var v byte
				fmt.Sscanf(s[i+1:i+3], "%02x", &v)
				sb.WriteByte(v)
				i += 2
			default:
				sb.WriteByte(s[i])
			}
			continue
		}
		sb.WriteByte(s[i])
	}
	return sb.String()
}

func (p *exprParser) postfix(x Expr) Expr {
	for {
		t := p.peek()
		if t.kind != "op" {
			return x
		}
		switch t.s {
		case ".":
			p.next()
			id := p.next()
			if id.kind != "id" {
				panic(fmt.Errorf("selector expected at %d in %q", id.pos, p.src))
			}
			x = &ESel{x, id.s}
		case "(":
			p.next()
			var args []Expr
			for !p.accept(")") {
				args = append(args, p.expr(0))
				if !p.accept(",") {
					p.expect(")")
					break
				}
			}
			x = &ECall{x, args}
		case "[":
			p.next()
			var lo, hi, max Expr
			if p.peek().s != ":" {
				lo = p.expr(0)
			}
			if p.accept("]") {
				x = &EIndex{x, lo}
				continue
			}
			p.expect(":")
			if p.peek().s != "]" && p.peek().s != ":" {
				hi = p.expr(0)
			}
			if p.accept(":") {
				max = p.expr(0)
			}
			p.expect("]")
			x = &ESlice{x, lo, hi, max}
		default:
			return x
		}
	}
}

func exprString(e Expr) string {
	switch e := e.(type) {
	case *EIdent:
		return e.Name
	case *EInt:
		return e.V.String()
	case *EStr:
		return fmt.Sprintf("%q", e.V)
	case *EBool:
		return fmt.Sprint(e.V)
	case *ENil:
		return "nil"
	case *EUnary:
		return e.Op + exprString(e.X)
	case *EStar:
		return "*" + exprString(e.X)
	case *EBinary:
		return "(" + exprString(e.X) + " " + e.Op + " " + exprString(e.Y) + ")"
	case *ECall:
		var as []string
		for _, a := range e.Args {
			as = append(as, exprString(a))
		}
		return exprString(e.Fun) + "(" + strings.Join(as, ", ") + ")"
	case *EIndex:
		return exprString(e.X) + "[" + exprString(e.I) + "]"
	case *ESlice:
		s := exprString(e.X) + "["
		if e.Lo != nil {
			s += exprString(e.Lo)
		}
		s += ":"
		if e.Hi != nil {
			s += exprString(e.Hi)
		}
		if e.Max != nil {
			s += ":" + exprString(e.Max)
		}
		return s + "]"
	case *ESel:
		return exprString(e.X) + "." + e.Name
	case *EQuant:
		k := "exists"
		if e.Forall {
			k = "forall"
		}
		if e.Lo != nil {
			return fmt.Sprintf("%s %s in %s..%s :: %s", k, strings.Join(e.Vars, ","), exprString(e.Lo), exprString(e.Hi), exprString(e.Body))
		}
		return fmt.Sprintf("%s %s %s :: %s", k, strings.Join(e.Vars, ","), e.Type, exprString(e.Body))
	}
	return fmt.Sprintf("%v", e)
}
