package main

import (
	"fmt"
	"go/types"
)

const modelElems = 24

// modelTerms lists the SMT terms whose values describe a parameter in the entry state.
func modelTerms(c *Ctx, m ModelVar) []string {
	return valueTerms(c, m.Term, m.Type, 0)
}

func entryMem(c *Ctx, t types.Type) (string, bool) {
	key := c.memKey(t)
	n := fmt.Sprintf("M_%s_0", key)
	return n, c.declared[n]
}

func valueTerms(c *Ctx, term string, t types.Type, depth int) []string {
	if depth > 2 {
		return nil
	}
	switch u := t.Underlying().(type) {
	case *types.Basic:
		if isString(u) {
			out := []string{fmt.Sprintf("(str_len %s)", term)}
			for i := 0; i < modelElems; i++ {
				out = append(out, fmt.Sprintf("(str_at %s %s)", term, c.idxLit(int64(i))))
			}
			return out
		}
		if isInt(u) || isBool(u) {
			return []string{term}
		}
	case *types.Slice:
		out := []string{fmt.Sprintf("(slen %s)", term), fmt.Sprintf("(scap %s)", term), fmt.Sprintf("(= (sbase %s) lnil)", term)}
		switch eu := u.Elem().Underlying().(type) {
		case *types.Basic:
			mem := fmt.Sprintf("M_%s_0", c.arrKey(u.Elem()))
			if c.declared[mem] && (isInt(eu) || isBool(eu)) {
				for i := 0; i < modelElems; i++ {
					out = append(out, fmt.Sprintf("(select (select %s (sbase %s)) %s)", mem, term, c.binopIdx("+", fmt.Sprintf("(soff %s)", term), c.idxLit(int64(i)))))
				}
			}
		case *types.Struct, *types.Pointer:
			for i := 0; i < 6; i++ {
				loc := fmt.Sprintf("(lelem (sbase %s) %s)", term, c.binopIdx("+", fmt.Sprintf("(soff %s)", term), c.idxLit(int64(i))))
				out = append(out, locTerms(c, loc, u.Elem(), depth+1)...)
			}
		}
		return out
	case *types.Pointer:
		out := []string{fmt.Sprintf("(= %s lnil)", term)}
		out = append(out, locTerms(c, term, u.Elem(), depth+1)...)
		return out
	case *types.Struct:
		var out []string
		sn := c.structSort(u)
		for i := 0; i < u.NumFields(); i++ {
			out = append(out, valueTerms(c, fmt.Sprintf("(%s_f%d %s)", sn, i, term), u.Field(i).Type(), depth+1)...)
		}
		return out
	}
	return nil
}

// locTerms describes the value stored at loc (entry memory).
func locTerms(c *Ctx, loc string, t types.Type, depth int) []string {
	if depth > 3 {
		return nil
	}
	switch u := t.Underlying().(type) {
	case *types.Struct:
		var out []string
		for i := 0; i < u.NumFields(); i++ {
			out = append(out, locTerms(c, c.lfield(loc, u, i), u.Field(i).Type(), depth+1)...)
		}
		return out
	case *types.Array:
		var out []string
		n := u.Len()
		if n > 8 {
			n = 8
		}
		for i := int64(0); i < n; i++ {
			out = append(out, locTerms(c, fmt.Sprintf("(lelem %s %s)", loc, c.idxLit(i)), u.Elem(), depth+1)...)
		}
		return out
	}
	mem, ok := entryMem(c, t)
	if !ok {
		return nil
	}
	v := fmt.Sprintf("(select %s %s)", mem, loc)
	return valueTerms(c, v, t, depth)
}
