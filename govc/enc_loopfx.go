package main

// Precise loop effects: writes whose target location is a loop-invariant term (a field of an object that
// exists before the loop, or a `modifies` clause of a callee evaluated on loop-invariant arguments) are
// havoc'd cell by cell at the loop head instead of havocing the whole memory map of that type.

import (
	"fmt"
	"go/types"

	"golang.org/x/tools/go/ssa"
)

type specLoc struct {
	loc string
	t   types.Type // scalar
}

// outerLoc evaluates an address expression that only depends on values defined outside the loop.
func (e *Encoder) outerLoc(v ssa.Value, body map[*ssa.BasicBlock]bool) (string, bool) {
	c := e.c
	switch x := v.(type) {
	case *ssa.Global, *ssa.Parameter, *ssa.FreeVar:
		return e.val(x).S, true
	case *ssa.Alloc:
		if !body[x.Block()] {
			if val, ok := e.vals[x]; ok {
				return val.S, true
			}
		}
		return "", false
	case *ssa.FieldAddr:
		base, ok := e.outerLoc(x.X, body)
		if !ok {
			return "", false
		}
		pt, ok := x.X.Type().Underlying().(*types.Pointer)
		if !ok {
			return "", false
		}
		st, ok := pt.Elem().Underlying().(*types.Struct)
		if !ok {
			return "", false
		}
		return c.lfield(base, st, x.Field), true
	case *ssa.IndexAddr:
		if _, ok := x.X.Type().Underlying().(*types.Pointer); !ok {
			return "", false
		}
		k, ok := x.Index.(*ssa.Const)
		if !ok || k.Value == nil {
			return "", false
		}
		base, ok := e.outerLoc(x.X, body)
		if !ok {
			return "", false
		}
		return fmt.Sprintf("(lelem %s %s)", base, c.idxLit(k.Int64())), true
	}
	if in, ok := v.(ssa.Instruction); ok && !body[in.Block()] {
		if val, ok := e.vals[v]; ok && val.S != "" {
			return val.S, true
		}
	}
	return "", false
}

func (e *Encoder) scalarLeaves(loc string, t types.Type, out *[]specLoc) bool {
	c := e.c
	switch u := t.Underlying().(type) {
	case *types.Struct:
		for i := 0; i < u.NumFields(); i++ {
			if !e.scalarLeaves(c.lfield(loc, u, i), u.Field(i).Type(), out) {
				return false
			}
		}
		return true
	case *types.Array:
		return false
	}
	*out = append(*out, specLoc{loc, t})
	return true
}

// loopSpecificWrites returns, per memory key, the loop-invariant cells written by the instructions it could
// resolve, and the set of those instructions (memKeysWritten then ignores them).
func (e *Encoder) loopSpecificWrites(body map[*ssa.BasicBlock]bool) (map[string][]specLoc, map[ssa.Instruction]bool) {
	c := e.c
	res := map[string][]specLoc{}
	done := map[ssa.Instruction]bool{}
	add := func(ls []specLoc) {
		for _, l := range ls {
			k := c.memKey(l.t)
			if _, _, isElem := splitLelem(l.loc); isElem {
				continue
			}
			dup := false
			for _, x := range res[k] {
				if x.loc == l.loc {
					dup = true
				}
			}
			if !dup {
				res[k] = append(res[k], l)
			}
		}
	}
	for b := range body {
		for _, in := range b.Instrs {
			switch in := in.(type) {
			case *ssa.Store:
				loc, ok := e.outerLoc(in.Addr, body)
				if !ok {
					continue
				}
				if _, _, isElem := splitLelem(loc); isElem {
					continue // array cells go through the arr_ maps: leave to the coarse rule
				}
				var ls []specLoc
				if !e.scalarLeaves(loc, in.Val.Type(), &ls) {
					continue
				}
				add(ls)
				done[in] = true
			case *ssa.Call:
				cm := in.Common()
				callee := cm.StaticCallee()
				if callee == nil || cm.IsInvoke() {
					continue
				}
				fc := e.prog.contractFor(callee)
				if fc == nil || !fc.HasMod || len(fc.Modifies) == 0 {
					continue
				}
				env := &Env{c: c, pkg: fnTypesPkg(callee), vars: map[string]Val{}, mem: func(k, s string) string {
					panic(elabErr{"memory read in modifies expression"})
				}}
				names := paramNames(callee, fc)
				okArgs := true
				for i, a := range cm.Args {
					var s string
					var ok bool
					if _, isPtr := a.Type().Underlying().(*types.Pointer); isPtr {
						s, ok = e.outerLoc(a, body)
					} else if ai, isIn := a.(ssa.Instruction); isIn && body[ai.Block()] {
						ok = false
					} else if _, isConst := a.(*ssa.Const); isConst {
						s, ok = e.val(a).S, true
					} else if v, has := e.vals[a]; has {
						s, ok = v.S, true
					}
					if !ok {
						// non-pointer arguments defined in the loop cannot appear in an address without a read
						if _, isPtr := a.Type().Underlying().(*types.Pointer); isPtr {
							okArgs = false
							break
						}
						s = "loopval"
					}
					if i < len(names) && names[i] != "_" {
						env.vars[names[i]] = Val{T: a.Type(), S: s}
					}
				}
				if !okArgs {
					continue
				}
				var ls []specLoc
				good := true
				for _, m := range fc.Modifies {
					func() {
						defer func() {
							if r := recover(); r != nil {
								if _, ok := r.(elabErr); ok {
									good = false
									return
								}
								panic(r)
							}
						}()
						if _, isCall := m.(*ECall); isCall {
							good = false
							return
						}
						loc, t, ok := env.addr(m)
						if !ok || !e.scalarLeaves(loc, t, &ls) {
							good = false
						}
					}()
				}
				for _, l := range ls {
					if containsLoopVal(l.loc) {
						good = false
					}
					if _, _, isElem := splitLelem(l.loc); isElem {
						good = false
					}
				}
				if !good {
					continue
				}
				add(ls)
				done[in] = true
			}
		}
	}
	return res, done
}

func containsLoopVal(s string) bool {
	for i := 0; i+7 <= len(s); i++ {
		if s[i:i+7] == "loopval" {
			return true
		}
	}
	return false
}
