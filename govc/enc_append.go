package main

// append / copy / elems-havoc over the two-level array memory (arr_<key> : Array Loc (Array IDX T)).

import (
	"fmt"
	"go/types"

	"golang.org/x/tools/go/ssa"
)

type structLeaf struct {
	path []int
	t    types.Type
}

// structLeaves lists the scalar leaf fields of a struct type as paths of field ids (ok=false if it contains arrays).
func structLeaves(c *Ctx, t types.Type) ([]structLeaf, bool) {
	st, ok := t.Underlying().(*types.Struct)
	if !ok {
		return nil, false
	}
	var out []structLeaf
	for i := 0; i < st.NumFields(); i++ {
		ft := st.Field(i).Type()
		switch ft.Underlying().(type) {
		case *types.Struct:
			sub, ok := structLeaves(c, ft)
			if !ok {
				return nil, false
			}
			for _, s := range sub {
				out = append(out, structLeaf{append([]int{c.fid(st, i)}, s.path...), s.t})
			}
		case *types.Array:
			return nil, false
		default:
			out = append(out, structLeaf{[]int{c.fid(st, i)}, ft})
		}
	}
	return out, true
}

func scalarElem(t types.Type) bool {
	switch t.Underlying().(type) {
	case *types.Struct, *types.Array:
		return false
	}
	return true
}

func (e *Encoder) appendArr(cm *ssa.CallCommon, args []Val, st *State, pc string) Val {
	c := e.c
	intT := types.Typ[types.Int]
	s := args[0]
	sl := s.T.Underlying().(*types.Slice)
	elem := sl.Elem()
	if len(args) == 1 {
		return s
	}
	t := args[1]
	slen, scap, soff, sbase := fmt.Sprintf("(slen %s)", s.S), fmt.Sprintf("(scap %s)", s.S), fmt.Sprintf("(soff %s)", s.S), fmt.Sprintf("(sbase %s)", s.S)
	var tlen string
	if isString(t.T) {
		tlen = fmt.Sprintf("(str_len %s)", t.S)
	} else {
		tlen = fmt.Sprintf("(slen %s)", t.S)
	}
	as, known := e.arrSlices[t.S]
	if known {
		tlen = c.idxLit(as.at.Len())
	}
	n := c.define("n", c.idx(), c.binopIdx("+", slen, tlen))
	inplace := c.define("inplace", "Bool", c.cmp("<=", intT, n, scap))
	newloc := e.alloc(st)
	newcap := c.fresh("cap")
	c.declare(newcap, c.idx())
	c.assume(implies(pc, c.cmp("<=", intT, n, newcap)))
	c.assume(implies(pc, c.cmp("<", intT, newcap, c.lit(intT, pow2(62)))))
	// Reallocation keeps the element offset (unobservable) so that the new backing array is the old
	// array value with the appended elements stored on top: no quantified copy axiom is needed.
	res := c.define("app", "Slice", fmt.Sprintf("(ite %s (mkslice %s %s %s %s) (mkslice %s %s %s %s))", inplace, sbase, soff, n, scap, newloc, soff, n, newcap))
	if !scalarElem(elem) {
		leaves, ok := structLeaves(c, elem)
		if !ok || !known {
			e.havocAll(st, "append of aggregate elements (contents not tracked)")
			return Val{T: s.T, S: res}
		}
		// struct elements live in the flat memory at lfield*(lelem(base, idx)).
		floc := func(base, idx string, path []int) string {
			l := fmt.Sprintf("(lelem %s %s)", base, idx)
			for _, f := range path {
				l = fmt.Sprintf("(lfield %s %d)", l, f)
			}
			return l
		}
		start := c.define("start", c.idx(), c.binopIdx("+", soff, slen))
		arrLoc := e.val(as.al).S
		// values of the appended elements, read before any write
		vals := map[string]string{}
		for i := int64(0); i < as.at.Len(); i++ {
			for li, lf := range leaves {
				m := st.get(c, c.memKey(lf.t), c.memSort(lf.t))
				vals[fmt.Sprintf("%d.%d", i, li)] = c.define("ev", c.sortOf(lf.t), fmt.Sprintf("(select %s %s)", m, floc(arrLoc, c.idxLit(i), lf.path)))
			}
		}
		// reallocation: facts about the fresh array (keeps the offset), stated on the current maps
		for li, lf := range leaves {
			m := st.get(c, c.memKey(lf.t), c.memSort(lf.t))
			// (the trigger is the location term alone: the memory may be a macro with an ite, which no pattern may contain)
			c.assume(implies(and(pc, not(inplace)), fmt.Sprintf("(forall ((i!a %s)) (! (=> %s (= (select %s %s) (select %s %s))) :pattern (%s)))",
				c.idx(), and(c.cmp("<=", intT, soff, "i!a"), c.cmp("<", intT, "i!a", start)), m, floc(newloc, "i!a", lf.path), m, floc(sbase, "i!a", lf.path), floc(newloc, "i!a", lf.path))))
			for i := int64(0); i < as.at.Len(); i++ {
				c.assume(implies(and(pc, not(inplace)), fmt.Sprintf("(= (select %s %s) %s)", m, floc(newloc, c.binopIdx("+", start, c.idxLit(i)), lf.path), vals[fmt.Sprintf("%d.%d", i, li)])))
			}
		}
		// in place: conditional stores
		for i := int64(0); i < as.at.Len(); i++ {
			for li, lf := range leaves {
				key, srt := c.memKey(lf.t), c.memSort(lf.t)
				m := st.get(c, key, srt)
				st.mem[key] = c.define("M_"+key, srt, fmt.Sprintf("(ite %s (store %s %s %s) %s)", inplace, m, floc(sbase, c.binopIdx("+", start, c.idxLit(i)), lf.path), vals[fmt.Sprintf("%d.%d", i, li)], m))
			}
		}
		return Val{T: s.T, S: res}
	}
	key, srt := c.arrKey(elem), c.arrSort(elem)
	A := st.get(c, key, srt)
	start := c.define("start", c.idx(), c.binopIdx("+", soff, slen))
	old := fmt.Sprintf("(select %s %s)", A, sbase)
	var arr string
	if known {
		arr = old
		arrLoc := e.val(as.al).S
		for i := int64(0); i < as.at.Len(); i++ {
			v := fmt.Sprintf("(select (select %s %s) %s)", A, arrLoc, c.idxLit(i))
			arr = fmt.Sprintf("(store %s %s %s)", arr, c.binopIdx("+", start, c.idxLit(i)), v)
		}
		arr = c.define("arr", fmt.Sprintf("(Array %s %s)", c.idx(), c.sortOf(elem)), arr)
	} else {
		// general: pointwise definition over the index only
		arr = c.fresh("arr")
		c.declare(arr, fmt.Sprintf("(Array %s %s)", c.idx(), c.sortOf(elem)))
		var src string
		j := c.binopIdx("-", "i!a", start)
		if isString(t.T) {
			src = fmt.Sprintf("(str_at %s %s)", t.S, j)
		} else {
			src = fmt.Sprintf("(select (select %s (sbase %s)) %s)", A, t.S, c.binopIdx("+", fmt.Sprintf("(soff %s)", t.S), j))
		}
		inr := and(c.cmp("<=", intT, start, "i!a"), c.cmp("<", intT, "i!a", c.binopIdx("+", start, tlen)))
		c.assume(implies(pc, fmt.Sprintf("(forall ((i!a %s)) (! (= (select %s i!a) (ite %s %s (select %s i!a))) :pattern ((select %s i!a))))", c.idx(), arr, inr, src, old, arr)))
	}
	target := fmt.Sprintf("(ite %s %s %s)", inplace, sbase, newloc)
	st.mem[key] = c.define("M_"+key, srt, fmt.Sprintf("(store %s %s %s)", A, target, arr))
	return Val{T: s.T, S: res}
}

func (e *Encoder) copyArr(cm *ssa.CallCommon, args []Val, st *State, pc string) Val {
	c := e.c
	intT := types.Typ[types.Int]
	d, s := args[0], args[1]
	elem := d.T.Underlying().(*types.Slice).Elem()
	dlen := fmt.Sprintf("(slen %s)", d.S)
	var sl string
	if isString(s.T) {
		sl = fmt.Sprintf("(str_len %s)", s.S)
	} else {
		sl = fmt.Sprintf("(slen %s)", s.S)
	}
	n := c.define("ncopy", c.idx(), fmt.Sprintf("(ite %s %s %s)", c.cmp("<=", intT, dlen, sl), dlen, sl))
	if !scalarElem(elem) {
		if _, isSl := s.T.Underlying().(*types.Slice); isSl && e.copyAggregate(d, s, elem, n, st, pc) {
			return Val{T: intT, S: n}
		}
		// aggregate elements: the destination's cells (within its capacity) become unknown, nothing else changes
		if err := e.havocRange(st, d, elem); err != nil {
			e.havocAll(st, "copy of aggregate elements")
		} else {
			e.note("copy of aggregate elements: destination contents not tracked")
		}
		return Val{T: intT, S: n}
	}
	key, srt := c.arrKey(elem), c.arrSort(elem)
	A := st.get(c, key, srt)
	doff := fmt.Sprintf("(soff %s)", d.S)
	old := fmt.Sprintf("(select %s (sbase %s))", A, d.S)
	arr := c.fresh("arr")
	c.declare(arr, fmt.Sprintf("(Array %s %s)", c.idx(), c.sortOf(elem)))
	j := c.binopIdx("-", "i!c", doff)
	var src string
	if isString(s.T) {
		src = fmt.Sprintf("(str_at %s %s)", s.S, j)
	} else {
		src = fmt.Sprintf("(select (select %s (sbase %s)) %s)", A, s.S, c.binopIdx("+", fmt.Sprintf("(soff %s)", s.S), j))
	}
	inr := and(c.cmp("<=", intT, doff, "i!c"), c.cmp("<", intT, "i!c", c.binopIdx("+", doff, n)))
	c.assume(implies(pc, fmt.Sprintf("(forall ((i!c %s)) (! (= (select %s i!c) (ite %s %s (select %s i!c))) :pattern ((select %s i!c))))", c.idx(), arr, inr, src, old, arr)))
	st.mem[key] = c.define("M_"+key, srt, fmt.Sprintf("(store %s (sbase %s) %s)", A, d.S, arr))
	return Val{T: intT, S: n}
}

// copyAggregate models copy(d, s) for struct elements without arrays: every leaf cell of the destination elements
// [doff, doff+n) takes the value of the same leaf of the source element at the same relative position (read in the
// memory before the copy, which is also right for overlapping ranges); every other cell is unchanged.
func (e *Encoder) copyAggregate(d, s Val, elem types.Type, n string, st *State, pc string) bool {
	c := e.c
	intT := types.Typ[types.Int]
	sls, ok := structLeaves(c, elem)
	if !ok {
		return false
	}
	byKey := map[string][]structLeaf{}
	var keys []string
	for _, l := range sls {
		k := c.memKey(l.t)
		if _, seen := byKey[k]; !seen {
			keys = append(keys, k)
		}
		byKey[k] = append(byKey[k], l)
	}
	doff, soff := fmt.Sprintf("(soff %s)", d.S), fmt.Sprintf("(soff %s)", s.S)
	for _, key := range keys {
		srt := c.memSort(byKey[key][0].t)
		cur := st.get(c, key, srt)
		nm := c.fresh("M_" + key)
		c.declare(nm, srt)
		val := fmt.Sprintf("(select %s p!y)", cur)
		for i := len(byKey[key]) - 1; i >= 0; i-- {
			l := byKey[key][i]
			var conds []string
			q := "p!y"
			for k := len(l.path) - 1; k >= 0; k-- {
				conds = append(conds, fmt.Sprintf("((_ is lfield) %s)", q), fmt.Sprintf("(= (fid %s) %d)", q, l.path[k]))
				q = fmt.Sprintf("(fbase %s)", q)
			}
			idx := fmt.Sprintf("(eidx %s)", q)
			conds = append(conds, fmt.Sprintf("(is_lelem %s)", q), fmt.Sprintf("(= (ebase %s) (sbase %s))", q, d.S),
				c.cmp("<=", intT, doff, idx), c.cmp("<", intT, idx, c.binopIdx("+", doff, n)))
			src := fmt.Sprintf("(lelem (sbase %s) %s)", s.S, c.binopIdx("+", soff, c.binopIdx("-", idx, doff)))
			for _, f := range l.path {
				src = fmt.Sprintf("(lfield %s %d)", src, f)
			}
			val = fmt.Sprintf("(ite %s (select %s %s) %s)", and(conds...), cur, src, val)
		}
		c.assume(implies(pc, fmt.Sprintf("(forall ((p!y Loc)) (! (= (select %s p!y) %s) :pattern ((select %s p!y))))", nm, val, nm)))
		st.mem[key] = nm
	}
	e.usedStdlib["copy of struct elements (element-wise, leaf by leaf)"] = true
	return true
}

// havocElems havocs the cells [off, off+cap) of slice s's backing array (scalar elements), or the
// flat memory of every leaf type for aggregate elements.
func (e *Encoder) havocElems(st *State, s Val, elem types.Type) error {
	c := e.c
	intT := types.Typ[types.Int]
	if scalarElem(elem) {
		key, srt := c.arrKey(elem), c.arrSort(elem)
		A := st.get(c, key, srt)
		arr := c.fresh("arr")
		c.declare(arr, fmt.Sprintf("(Array %s %s)", c.idx(), c.sortOf(elem)))
		off := fmt.Sprintf("(soff %s)", s.S)
		inr := and(c.cmp("<=", intT, off, "i!h"), c.cmp("<", intT, "i!h", c.binopIdx("+", off, fmt.Sprintf("(scap %s)", s.S))))
		old := fmt.Sprintf("(select %s (sbase %s))", A, s.S)
		c.assume(fmt.Sprintf("(forall ((i!h %s)) (! (=> (not %s) (= (select %s i!h) (select %s i!h))) :pattern ((select %s i!h))))", c.idx(), inr, arr, old, arr))
		st.mem[key] = c.define("M_"+key, srt, fmt.Sprintf("(store %s (sbase %s) %s)", A, s.S, arr))
		return nil
	}
	return e.havocRange(st, s, elem)
}
