package main

import (
	"fmt"
	"go/types"

	"golang.org/x/tools/go/ssa"
)

// Map model: MapRef is an integer id; per (K,V) sort pair two memory maps
//   mapdom_K_V : Array MapRef (Array K Bool), mapval_K_V : Array MapRef (Array K V).

func (env *Env) mapKeys(mt *types.Map) (dk, ds, vk, vs string) {
	c := env.c
	ks, es := c.sortOf(mt.Key()), c.sortOf(mt.Elem())
	suffix := sanitize(ks) + "_" + sanitize(es)
	return "mapdom_" + suffix, fmt.Sprintf("(Array MapRef (Array %s Bool))", ks), "mapval_" + suffix, fmt.Sprintf("(Array MapRef (Array %s %s))", ks, es)
}

func (env *Env) mapDom(m Val, mt *types.Map) string {
	dk, ds, _, _ := env.mapKeys(mt)
	if env.memUsed != nil {
		*env.memUsed = append(*env.memUsed, memUse{dk, ds})
	}
	return fmt.Sprintf("(select %s %s)", env.mem(dk, ds), m.S)
}

func (env *Env) mapState(m Val, mt *types.Map) string { return env.mapDom(m, mt) }

func (env *Env) mapHas(m Val, mt *types.Map, k string) string {
	return fmt.Sprintf("(and (not (= %s map_nil)) (select %s %s))", m.S, env.mapDom(m, mt), k)
}

func (env *Env) mapGet(m Val, mt *types.Map, k string) Val {
	_, _, vk, vs := env.mapKeys(mt)
	if env.memUsed != nil {
		*env.memUsed = append(*env.memUsed, memUse{vk, vs})
	}
	return Val{T: mt.Elem(), S: fmt.Sprintf("(select (select %s %s) %s)", env.mem(vk, vs), m.S, k)}
}

func (env *Env) mapLenFn(mt *types.Map) string {
	c := env.c
	ks := c.sortOf(mt.Key())
	n := "mapcard_" + sanitize(ks)
	c.declareFun(n, []string{fmt.Sprintf("(Array %s Bool)", ks)}, c.idx())
	return n
}

func (e *Encoder) makeMap(in *ssa.MakeMap, st *State, pc string) {
	c := e.c
	mt := in.Type().Underlying().(*types.Map)
	env := e.envFor(st)
	dk, ds, _, _ := env.mapKeys(mt)
	ref := c.define("newmap", "MapRef", st.ctr)
	st.ctr = c.define("ctr", "Int", fmt.Sprintf("(+ %s 1)", st.ctr))
	cur := st.get(c, dk, ds)
	ks := c.sortOf(mt.Key())
	st.mem[dk] = c.define("M_"+dk, ds, fmt.Sprintf("(store %s %s ((as const (Array %s Bool)) false))", cur, ref, ks))
	e.vals[in] = Val{T: in.Type(), S: ref}
}

func (e *Encoder) mapUpdate(in *ssa.MapUpdate, st *State, pc string) {
	c := e.c
	m := e.val(in.Map)
	mt := in.Map.Type().Underlying().(*types.Map)
	e.panicObl("nilmap", "assignment to entry in nil map", pc, not(fmt.Sprintf("(= %s map_nil)", m.S)))
	env := e.envFor(st)
	dk, ds, vk, vs := env.mapKeys(mt)
	k, v := e.val(in.Key), e.val(in.Value)
	curD, curV := st.get(c, dk, ds), st.get(c, vk, vs)
	st.mem[dk] = c.define("M_"+dk, ds, fmt.Sprintf("(store %s %s (store (select %s %s) %s true))", curD, m.S, curD, m.S, k.S))
	st.mem[vk] = c.define("M_"+vk, vs, fmt.Sprintf("(store %s %s (store (select %s %s) %s %s))", curV, m.S, curV, m.S, k.S, v.S))
	e.siteMapUpdate(in, st, pc)
}

func (e *Encoder) mapDelete(m Val, mt *types.Map, k Val, st *State, pc string) {
	c := e.c
	env := e.envFor(st)
	dk, ds, _, _ := env.mapKeys(mt)
	curD := st.get(c, dk, ds)
	st.mem[dk] = c.define("M_"+dk, ds, fmt.Sprintf("(ite (= %s map_nil) %s (store %s %s (store (select %s %s) %s false)))", m.S, curD, curD, m.S, curD, m.S, k.S))
}

type rangeIter struct {
	x   ssa.Value
	val Val
}

func (e *Encoder) rangeInit(in *ssa.Range, st *State, pc string) {
	e.ranges[in] = rangeIter{in.X, e.val(in.X)}
	e.vals[in] = Val{T: in.Type(), S: "iter"}
}

func (e *Encoder) rangeNext(in *ssa.Next, st *State, pc string) {
	c := e.c
	it, ok := e.ranges[in.Iter.(*ssa.Range)]
	tup := in.Type().(*types.Tuple)
	okv := e.freshVal("rng_ok", types.Typ[types.Bool])
	kv := e.freshVal("rng_k", tup.At(1).Type())
	vv := e.freshVal("rng_v", tup.At(2).Type())
	e.assumeWT(kv, pc, st)
	e.assumeWT(vv, pc, st)
	if ok && !in.IsString {
		if mt, ismap := it.x.Type().Underlying().(*types.Map); ismap {
			env := e.envFor(st)
			m := it.val
			c.assume(implies(and(pc, okv.S), env.mapHas(m, mt, kv.S)))
			if _, isInvalid := tup.At(2).Type().(*types.Basic); !(isInvalid && tup.At(2).Type().(*types.Basic).Kind() == types.Invalid) {
				c.assume(implies(and(pc, okv.S), fmt.Sprintf("(= %s %s)", vv.S, env.mapGet(m, mt, kv.S).S)))
			}
		}
	}
	e.vals[in] = Val{T: in.Type(), Tuple: []Val{okv, kv, vv}}
}
