package main

import (
	"fmt"
	"go/types"

	"golang.org/x/tools/go/ssa"
)

// Map model: MapRef is an integer id; per (K,V) sort pair two memory maps
//   mapdom_K_V : Array MapRef (Array K Bool), mapval_K_V : Array MapRef (Array K V).

func (env *Env) mapKeys(mt *types.Map) (dk, ds, vk, vs string) {
	c := env.c
	ks, es := c.sortOf(mt.Key()), c.sortOf(mt.Elem())
	suffix := sanitize(ks) + "_" + sanitize(es)
	return "mapdom_" + suffix, fmt.Sprintf("(Array MapRef (Array %s Bool))", ks), "mapval_" + suffix, fmt.Sprintf("(Array MapRef (Array %s %s))", ks, es)
}

func (env *Env) mapDom(m Val, mt *types.Map) string {
	dk, ds, _, _ := env.mapKeys(mt)
	if env.memUsed != nil {
		*env.memUsed = append(*env.memUsed, memUse{dk, ds})
	}
	return fmt.Sprintf("(select %s %s)", env.mem(dk, ds), m.S)
}

func (env *Env) mapState(m Val, mt *types.Map) string { return env.mapDom(m, mt) }

func (env *Env) mapHas(m Val, mt *types.Map, k string) string {
	return fmt.Sprintf("(and (not (= %s map_nil)) (select %s %s))", m.S, env.mapDom(m, mt), k)
}

func (env *Env) mapGet(m Val, mt *types.Map, k string) Val {
	_, _, vk, vs := env.mapKeys(mt)
	if env.memUsed != nil {
		*env.memUsed = append(*env.memUsed, memUse{vk, vs})
	}
	return Val{T: mt.Elem(), S: fmt.Sprintf("(select (select %s %s) %s)", env.mem(vk, vs), m.S, k)}
}

func (env *Env) mapLenFn(mt *types.Map) string {
	c := env.c
	ks := c.sortOf(mt.Key())
	n := "mapcard_" + sanitize(ks)
	c.declareFun(n, []string{fmt.Sprintf("(Array %s Bool)", ks)}, c.idx())
	return n
}

func (e *Encoder) makeMap(in *ssa.MakeMap, st *State, pc string) {
	c := e.c
	mt := in.Type().Underlying().(*types.Map)
	env := e.envFor(st)
	dk, ds, _, _ := env.mapKeys(mt)
	ref := c.define("newmap", "MapRef", st.ctr)
	st.ctr = c.define("ctr", "Int", fmt.Sprintf("(+ %s 1)", st.ctr))
	cur := st.get(c, dk, ds)
	ks := c.sortOf(mt.Key())
	st.mem[dk] = c.define("M_"+dk, ds, fmt.Sprintf("(store %s %s ((as const (Array %s Bool)) false))", cur, ref, ks))
	e.vals[in] = Val{T: in.Type(), S: ref}
}

func (e *Encoder) mapUpdate(in *ssa.MapUpdate, st *State, pc string) {
	c := e.c
	m := e.val(in.Map)
	mt := in.Map.Type().Underlying().(*types.Map)
	e.panicObl("nilmap", "assignment to entry in nil map", pc, not(fmt.Sprintf("(= %s map_nil)", m.S)))
	// (execution continues past the assignment only if the map is not nil)
	c.assume(implies(pc, not(fmt.Sprintf("(= %s map_nil)", m.S))))
	env := e.envFor(st)
	dk, ds, vk, vs := env.mapKeys(mt)
	k, v := e.val(in.Key), e.val(in.Value)
	curD, curV := st.get(c, dk, ds), st.get(c, vk, vs)
	// what the entry held before this update (site assertions run after it: `prev`, `had`)
	e.mapPrev = &Val{T: mt.Elem(), S: c.define("mprev", c.sortOf(mt.Elem()), fmt.Sprintf("(select (select %s %s) %s)", curV, m.S, k.S))}
	e.mapHad = &Val{T: types.Typ[types.Bool], S: c.define("mhad", "Bool", fmt.Sprintf("(select (select %s %s) %s)", curD, m.S, k.S))}
	st.mem[dk] = c.define("M_"+dk, ds, fmt.Sprintf("(store %s %s (store (select %s %s) %s true))", curD, m.S, curD, m.S, k.S))
	st.mem[vk] = c.define("M_"+vk, vs, fmt.Sprintf("(store %s %s (store (select %s %s) %s %s))", curV, m.S, curV, m.S, k.S, v.S))
	e.siteMapUpdate(in, st, pc)
	e.mapPrev, e.mapHad = nil, nil
}

func (e *Encoder) mapDelete(m Val, mt *types.Map, k Val, st *State, pc string) {
	c := e.c
	env := e.envFor(st)
	dk, ds, _, _ := env.mapKeys(mt)
	curD := st.get(c, dk, ds)
	st.mem[dk] = c.define("M_"+dk, ds, fmt.Sprintf("(ite (= %s map_nil) %s (store %s %s (store (select %s %s) %s false)))", m.S, curD, curD, m.S, curD, m.S, k.S))
}

type rangeIter struct {
	x   ssa.Value
	val Val
}

// rangeGhost: ghost state of a range over a map: the set of keys already produced (visited) and the key set at
// the start of the iteration (dom0). Go guarantees every key that is present at the start and is not deleted
// before being reached is produced exactly once; keys added during the iteration may or may not be produced.
func rangeGhostKeys(in *ssa.Range, ks string) (visKey, domKey, srt string) {
	return "mapdom_rngvis_" + in.Name(), "mapdom_rngdom_" + in.Name(), fmt.Sprintf("(Array %s Bool)", ks)
}

func (e *Encoder) rangeInit(in *ssa.Range, st *State, pc string) {
	e.ranges[in] = rangeIter{in.X, e.val(in.X)}
	e.vals[in] = Val{T: in.Type(), S: "iter"}
	if mt, ok := in.X.Type().Underlying().(*types.Map); ok {
		c := e.c
		ks := c.sortOf(mt.Key())
		vk, dk, srt := rangeGhostKeys(in, ks)
		c.memSorts[vk], c.memSorts[dk] = srt, srt
		// (declared constants, not macros: they occur in quantifier patterns)
		vis, dom0 := c.fresh("G_vis"), c.fresh("G_dom0")
		c.declare(vis, srt)
		c.declare(dom0, srt)
		c.assume(fmt.Sprintf("(= %s ((as const %s) false))", vis, srt))
		env := e.envFor(st)
		m := e.val(in.X)
		c.assume(fmt.Sprintf("(= %s (ite (= %s map_nil) ((as const %s) false) %s))", dom0, m.S, srt, env.mapDom(m, mt)))
		st.mem[vk], st.mem[dk] = vis, dom0
	}
}

// mapRangeOf: the map-range iterator advanced in block b (a loop header), if any.
func mapRangeOf(b *ssa.BasicBlock) *ssa.Range {
	for _, in := range b.Instrs {
		if nx, ok := in.(*ssa.Next); ok && !nx.IsString {
			if r, ok := nx.Iter.(*ssa.Range); ok {
				if _, ismap := r.X.Type().Underlying().(*types.Map); ismap {
					return r
				}
			}
		}
	}
	return nil
}

func (e *Encoder) rangeNext(in *ssa.Next, st *State, pc string) {
	c := e.c
	it, ok := e.ranges[in.Iter.(*ssa.Range)]
	tup := in.Type().(*types.Tuple)
	okv := e.freshVal("rng_ok", types.Typ[types.Bool])
	kt, vt := tup.At(1).Type(), tup.At(2).Type()
	if okr := ok && !in.IsString; okr {
		// (`for _, v := range m` gives the unused component the invalid type: take the map's own types)
		if mt, ismap := it.x.Type().Underlying().(*types.Map); ismap {
			if b, isb := kt.(*types.Basic); isb && b.Kind() == types.Invalid {
				kt = mt.Key()
			}
			if b, isb := vt.(*types.Basic); isb && b.Kind() == types.Invalid {
				vt = mt.Elem()
			}
		}
	}
	kv := e.freshVal("rng_k", kt)
	vv := e.freshVal("rng_v", vt)
	e.assumeWT(kv, pc, st)
	e.assumeWT(vv, pc, st)
	if ok && !in.IsString {
		if mt, ismap := it.x.Type().Underlying().(*types.Map); ismap {
			env := e.envFor(st)
			m := it.val
			c.assume(implies(and(pc, okv.S), env.mapHas(m, mt, kv.S)))
			// ghost: the produced key was not produced before; when the iteration ends, every key present
			// since the start has been produced
			rg := in.Iter.(*ssa.Range)
			ks := c.sortOf(mt.Key())
			vk, dk, srt := rangeGhostKeys(rg, ks)
			vis, dom0 := st.get(c, vk, srt), st.get(c, dk, srt)
			c.assume(implies(and(pc, okv.S), not(fmt.Sprintf("(select %s %s)", vis, kv.S))))
			domNow := c.fresh("G_dom")
			c.declare(domNow, srt)
			c.assume(fmt.Sprintf("(= %s (ite (= %s map_nil) ((as const %s) false) %s))", domNow, m.S, srt, env.mapDom(m, mt)))
			c.assume(implies(and(pc, not(okv.S)), fmt.Sprintf("(forall ((k!r %s)) (! (=> (and (select %s k!r) (select %s k!r)) (select %s k!r)) :pattern ((select %s k!r)) :pattern ((select %s k!r))))", ks, dom0, domNow, vis, vis, env.mapDom(m, mt))))
			nvis := c.fresh("G_vis")
			c.declare(nvis, srt)
			c.assume(fmt.Sprintf("(= %s (ite %s (store %s %s true) %s))", nvis, okv.S, vis, kv.S, vis))
			st.mem[vk] = nvis
			if _, isInvalid := tup.At(2).Type().(*types.Basic); !(isInvalid && tup.At(2).Type().(*types.Basic).Kind() == types.Invalid) {
				c.assume(implies(and(pc, okv.S), fmt.Sprintf("(= %s %s)", vv.S, env.mapGet(m, mt, kv.S).S)))
			}
		}
	}
	e.vals[in] = Val{T: in.Type(), Tuple: []Val{okv, kv, vv}}
}
