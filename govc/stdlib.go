package main

// Trusted contracts for standard-library and third-party functions. Every use is reported in evidence.

import (
	"fmt"
	"go/types"
	"math/big"
	"strings"

	"golang.org/x/tools/go/ssa"
)

var stdlibPureNames = map[string]bool{
	"errors.New": true, "fmt.Errorf": true, "fmt.Sprintf": true, "fmt.Sprint": true,
	"math.Float64bits": true, "math.Float64frombits": true, "math/bits.Len32": true, "math/bits.Len64": true,
	"hash/crc32.Checksum": true, "hash/crc32.Update": true, "hash/crc32.ChecksumIEEE": true,
	"strings.HasPrefix": true, "strings.HasSuffix": true, "strings.EqualFold": true, "strings.ToLower": true, "strings.Contains": true,
	"bytes.Equal": true, "bytes.HasPrefix": true,
	"strconv.Itoa": true, "strconv.FormatInt": true, "strconv.FormatUint": true, "strconv.Quote": true,
	"errors.Is": true, "errors.As": false,
	"(encoding/binary.bigEndian).Uint16": true, "(encoding/binary.bigEndian).Uint32": true, "(encoding/binary.bigEndian).Uint64": true,
	"(encoding/binary.littleEndian).Uint16": true, "(encoding/binary.littleEndian).Uint32": true, "(encoding/binary.littleEndian).Uint64": true,
	"(*sync.Mutex).Lock": true, "(*sync.Mutex).Unlock": true, "(*sync.RWMutex).Lock": true, "(*sync.RWMutex).Unlock": true,
	"(*sync.RWMutex).RLock": true, "(*sync.RWMutex).RUnlock": true,
	"(*sync.Cond).Signal": true, "(*sync.Cond).Broadcast": true,
	"time.Now": true, "time.Since": true, "time.Unix": true, "time.UnixMilli": true, "time.Until": true, "(time.Time).Sub": true, "(time.Time).UnixMilli": true, "(time.Time).UnixNano": true,
	"(time.Time).Before": true, "(time.Time).After": true, "(time.Time).Add": true, "(time.Duration).Milliseconds": true,
	"math/rand.Intn": true, "math/rand.Float64": true, "(*math/rand.Rand).Intn": true, "(*math/rand.Rand).Float64": true,
	"(*math/rand.Rand).Uint32": true, "(*math/rand.Rand).Int31n": true, "(*math/rand.Rand).Perm": false,
	"unicode/utf8.RuneLen": true, "unicode/utf8.DecodeRune": true, "unicode/utf8.DecodeRuneInString": true,
	"math.Floor": true, "math.Ceil": true, "math.Log": true, "math.Abs": true, "math.IsNaN": true, "math.IsInf": true,
}

// stdlibWrites: modelled library functions that write only array elements of the listed types.
func stdlibWrites(fn *ssa.Function) ([]types.Type, bool) {
	n := fn.String()
	switch {
	case n == "encoding/binary.AppendVarint" || n == "encoding/binary.AppendUvarint":
		return []types.Type{types.Typ[types.Uint8]}, true
	case strings.HasPrefix(n, "(encoding/binary.bigEndian).PutUint") || strings.HasPrefix(n, "(encoding/binary.littleEndian).PutUint"):
		return []types.Type{types.Typ[types.Uint8]}, true
	}
	if o := fn.Origin(); o != nil && o.String() == "slices.Sort" && fn.Signature.Params().Len() == 1 {
		if sl, ok := fn.Signature.Params().At(0).Type().Underlying().(*types.Slice); ok && scalarElem(sl.Elem()) {
			return []types.Type{sl.Elem()}, true
		}
	}
	return nil, false
}

func calleeName(fn *ssa.Function) string {
	if fn.Pkg == nil && fn.Signature.Recv() == nil {
		return fn.String()
	}
	return strings.TrimPrefix(fn.String(), "")
}

func (p *Program) stdlibPure(fn *ssa.Function) bool {
	n := fn.String()
	if stdlibPureNames[n] {
		return true
	}
	if strings.HasPrefix(n, "(*sync/atomic.") && (strings.HasSuffix(n, ").Load")) {
		return true
	}
	return false
}

func atomicField(t types.Type) (int, types.Type) {
	// t is *atomic.X; find field named "v"
	pt, ok := t.Underlying().(*types.Pointer)
	if !ok {
		return -1, nil
	}
	st, ok := pt.Elem().Underlying().(*types.Struct)
	if !ok {
		return -1, nil
	}
	for i := 0; i < st.NumFields(); i++ {
		if st.Field(i).Name() == "v" {
			return i, st.Field(i).Type()
		}
	}
	return -1, nil
}

func (e *Encoder) stdlibCall(callee *ssa.Function, cm *ssa.CallCommon, args []Val, resT types.Type, st *State, pc string) (Val, bool) {
	c := e.c
	n := callee.String()
	if callee.Origin() != nil {
		n = callee.Origin().String()
	}
	use := func() { e.usedStdlib[n] = true }
	intT := types.Typ[types.Int]
	u8 := types.Typ[types.Uint8]
	m8 := func() string { return st.get(c, "arr_u8", c.arrSort(u8)) }
	byteAt := func(s Val, i int64) string {
		return fmt.Sprintf("(select (select %s (sbase %s)) %s)", m8(), s.S, c.binopIdx("+", fmt.Sprintf("(soff %s)", s.S), c.idxLit(i)))
	}
	be := func(s Val, nbytes int, little bool, t types.Type) string {
		// big/little-endian composition
		if c.mode == ModeBV {
			var parts []string
			for i := 0; i < nbytes; i++ {
				k := i
				if little {
					k = nbytes - 1 - i
				}
				parts = append(parts, byteAt(s, int64(k)))
			}
			if nbytes == 1 {
				return parts[0]
			}
			return "(concat " + strings.Join(parts, " ") + ")"
		}
		var terms []string
		for i := 0; i < nbytes; i++ {
			sh := nbytes - 1 - i
			if little {
				sh = i
			}
			b := byteAt(s, int64(i))
			if r := c.inRange(u8, b); r != "" {
				// the bytes read are bytes (cells of a []byte hold 0..255)
				c.assume(implies(pc, r))
			}
			terms = append(terms, fmt.Sprintf("(* %s %s)", b, intLitS(pow2(8*sh))))
		}
		return "(+ " + strings.Join(terms, " ") + ")"
	}
	switch {
	case (n == "slices.SortFunc" || n == "slices.SortStableFunc") && len(args) == 2:
		if e.sortFuncModel(cm, args, st, pc) {
			use()
			return Val{T: resT}, true
		}
		return Val{}, false
	case n == "cmp.Compare" && len(args) == 2 && isInt(args[0].T.Underlying()):
		// cmp.Compare on integers: -1, 0, +1
		use()
		a, b := args[0], args[1]
		return Val{T: resT, S: fmt.Sprintf("(ite %s %s (ite %s %s %s))", c.cmp("<", a.T, a.S, b.S), c.lit(resT, big.NewInt(-1)),
			c.cmp("<", a.T, b.S, a.S), c.lit(resT, big.NewInt(1)), c.lit(resT, bigZero))}, true
	case n == "slices.Sort" && len(args) == 1:
		// slices.Sort(x) for integer elements (trusted library model): only the elements x[0:len(x)] change,
		// and afterwards they are in ascending order. (That the result is a permutation is not modelled.)
		sl, ok := args[0].T.Underlying().(*types.Slice)
		if !ok || !scalarElem(sl.Elem()) || !isInt(sl.Elem().Underlying()) {
			return Val{}, false
		}
		use()
		s, elem := args[0], sl.Elem()
		key, srt := c.arrKey(elem), c.arrSort(elem)
		A := st.get(c, key, srt)
		arr := c.fresh("sorted")
		c.declare(arr, fmt.Sprintf("(Array %s %s)", c.idx(), c.sortOf(elem)))
		off := fmt.Sprintf("(soff %s)", s.S)
		end := c.binopIdx("+", off, fmt.Sprintf("(slen %s)", s.S))
		inr := and(c.cmp("<=", intT, off, "i!s"), c.cmp("<", intT, "i!s", end))
		old := fmt.Sprintf("(select %s (sbase %s))", A, s.S)
		c.assume(fmt.Sprintf("(forall ((i!s %s)) (! (=> (not %s) (= (select %s i!s) (select %s i!s))) :pattern ((select %s i!s))))", c.idx(), inr, arr, old, arr))
		nxt := c.binopIdx("+", "i!s", c.idxLit(1))
		inr2 := and(c.cmp("<=", intT, off, "i!s"), c.cmp("<", intT, nxt, end))
		c.assume(implies(pc, fmt.Sprintf("(forall ((i!s %s)) (! (=> %s %s) :pattern ((select %s i!s))))", c.idx(), inr2,
			c.cmp("<=", elem, fmt.Sprintf("(select %s i!s)", arr), fmt.Sprintf("(select %s %s)", arr, nxt)), arr)))
		st.mem[key] = c.define("M_"+key, srt, fmt.Sprintf("(store %s (sbase %s) %s)", A, s.S, arr))
		return Val{T: resT}, true
	case strings.HasPrefix(n, "(encoding/binary.bigEndian).Uint") || strings.HasPrefix(n, "(encoding/binary.littleEndian).Uint"):
		use()
		little := strings.Contains(n, "littleEndian")
		var nb int
		fmt.Sscanf(n[strings.LastIndex(n, "Uint")+4:], "%d", &nb)
		nb /= 8
		s := args[1]
		e.panicObl("bounds", fmt.Sprintf("binary.Uint%d needs %d bytes", nb*8, nb), pc, c.cmp("<=", intT, c.idxLit(int64(nb)), fmt.Sprintf("(slen %s)", s.S)))
		return Val{T: resT, S: c.define("be", c.sortOf(resT), be(s, nb, little, resT))}, true
	case strings.HasPrefix(n, "(encoding/binary.bigEndian).PutUint") || strings.HasPrefix(n, "(encoding/binary.littleEndian).PutUint"):
		use()
		little := strings.Contains(n, "littleEndian")
		var nb int
		fmt.Sscanf(n[strings.LastIndex(n, "Uint")+4:], "%d", &nb)
		nb /= 8
		s, v := args[1], args[2]
		e.panicObl("bounds", fmt.Sprintf("binary.PutUint%d needs %d bytes", nb*8, nb), pc, c.cmp("<=", intT, c.idxLit(int64(nb)), fmt.Sprintf("(slen %s)", s.S)))
		for i := 0; i < nb; i++ {
			sh := nb - 1 - i
			if little {
				sh = i
			}
			var b string
			if c.mode == ModeBV {
				b = fmt.Sprintf("((_ extract %d %d) %s)", 8*sh+7, 8*sh, v.S)
			} else {
				b = fmt.Sprintf("(mod (div %s %s) 256)", v.S, intLitS(pow2(8*sh)))
			}
			e.store(st, fmt.Sprintf("(lelem (sbase %s) %s)", s.S, c.binopIdx("+", fmt.Sprintf("(soff %s)", s.S), c.idxLit(int64(i)))), u8, b)
		}
		return Val{T: resT}, true
	case n == "encoding/binary.AppendVarint" || n == "encoding/binary.AppendUvarint":
		// appends between 1 and 10 bytes (contents uninterpreted); prefix kept; in place or fresh array
		use()
		s := args[0]
		key, srt := c.arrKey(u8), c.arrSort(u8)
		A := st.get(c, key, srt)
		k := c.fresh("vlen")
		c.declare(k, c.idx())
		c.assume(implies(pc, and(c.cmp("<=", intT, c.idxLit(1), k), c.cmp("<=", intT, k, c.idxLit(10)))))
		slen, scap, soff, sbase := fmt.Sprintf("(slen %s)", s.S), fmt.Sprintf("(scap %s)", s.S), fmt.Sprintf("(soff %s)", s.S), fmt.Sprintf("(sbase %s)", s.S)
		nn := c.define("n", c.idx(), c.binopIdx("+", slen, k))
		inplace := c.define("inplace", "Bool", c.cmp("<=", intT, nn, scap))
		newloc := e.alloc(st)
		newcap := c.fresh("cap")
		c.declare(newcap, c.idx())
		c.assume(implies(pc, and(c.cmp("<=", intT, nn, newcap), c.cmp("<", intT, newcap, c.lit(intT, pow2(62))))))
		arr := c.fresh("arr")
		c.declare(arr, fmt.Sprintf("(Array %s %s)", c.idx(), c.sortOf(u8)))
		start := c.binopIdx("+", soff, slen)
		inr := and(c.cmp("<=", intT, start, "i!v"), c.cmp("<", intT, "i!v", c.binopIdx("+", start, k)))
		c.assume(implies(pc, fmt.Sprintf("(forall ((i!v %s)) (! (=> (not %s) (= (select %s i!v) (select (select %s %s) i!v))) :pattern ((select %s i!v))))", c.idx(), inr, arr, A, sbase, arr)))
		st.mem[key] = c.define("M_"+key, srt, fmt.Sprintf("(store %s (ite %s %s %s) %s)", A, inplace, sbase, newloc, arr))
		res := c.define("app", "Slice", fmt.Sprintf("(ite %s (mkslice %s %s %s %s) (mkslice %s %s %s %s))", inplace, sbase, soff, nn, scap, newloc, soff, nn, newcap))
		return Val{T: resT, S: res}, true
	case n == "encoding/binary.ReadVarint" || n == "encoding/binary.ReadUvarint":
		// arbitrary value, arbitrary effect on the heap (it drives the reader); the error is nil, one of
		// the reader's errors or binary's own overflow error. Trusted: the reader only fails with io.EOF
		// (true of sr.bReader, whose ReadByte contract is verified).
		use()
		e.havocAll(st, "call "+n+" (reads through io.ByteReader)")
		v := e.freshVal("rv", resT)
		e.assumeWT(v, pc, st)
		if len(v.Tuple) == 2 {
			eof, _ := c.constGlobal("io.EOF")
			ueof, _ := c.constGlobal("io.ErrUnexpectedEOF")
			if !c.declared["gerr_binary_overflow"] {
				c.declared["gerr_binary_overflow"] = true
				c.constGlobalsUsed = append(c.constGlobalsUsed, "gerr_binary_overflow")
			}
			er := v.Tuple[1].S
			c.assume(implies(pc, fmt.Sprintf("(or (= %s iface_nil) (= %s %s) (= %s %s) (= %s gerr_binary_overflow))", er, er, eof, er, ueof, er)))
		}
		return v, true
	case n == "math/bits.Len32" || n == "math/bits.Len64" || n == "math/bits.Len":
		use()
		w := 64
		if n == "math/bits.Len32" {
			w = 32
		}
		x := args[0]
		// chain must test largest first: rebuild properly
		term := c.lit(intT, bigZero)
		for k := 1; k <= w; k++ {
			// bits.Len(x) == k  iff 2^(k-1) <= x < 2^k ; build from small to large so the outermost test is the largest k
			term = fmt.Sprintf("(ite %s %s %s)", c.cmp(">=", x.T, x.S, c.lit(x.T, pow2(k-1))), c.lit(intT, big.NewInt(int64(k))), term)
		}
		return Val{T: resT, S: c.define("bitslen", c.sortOf(resT), term)}, true
	case n == "math.Float64bits":
		use()
		c.declareFun("f64bits", []string{"F64"}, c.sortOf(resT))
		c.declareFun("f64frombits", []string{c.sortOf(resT)}, "F64")
		v := Val{T: resT, S: fmt.Sprintf("(f64bits %s)", args[0].S)}
		c.assume(fmt.Sprintf("(= (f64frombits %s) %s)", v.S, args[0].S))
		if r := c.inRange(resT, v.S); r != "" {
			c.assume(r)
		}
		return v, true
	case n == "math.Float64frombits":
		use()
		c.declareFun("f64bits", []string{"F64"}, c.sortOf(args[0].T))
		c.declareFun("f64frombits", []string{c.sortOf(args[0].T)}, "F64")
		v := Val{T: resT, S: fmt.Sprintf("(f64frombits %s)", args[0].S)}
		return v, true
	case (n == "fmt.Fprintf" || n == "fmt.Fprint" || n == "fmt.Fprintln") && len(cm.Args) > 0:
		// formatted output into a *bytes.Buffer / *strings.Builder the function made an io.Writer from right here:
		// only that buffer object changes (library model; assumes the formatted operands' String/Error/Format
		// methods, if any, have no side effects)
		mi, ok := cm.Args[0].(*ssa.MakeInterface)
		if !ok {
			return Val{}, false
		}
		pt, ok := mi.X.Type().Underlying().(*types.Pointer)
		if !ok {
			return Val{}, false
		}
		if ts := pt.Elem().String(); ts != "bytes.Buffer" && ts != "strings.Builder" {
			return Val{}, false
		}
		use()
		e.havocObject(st, fmt.Sprintf("(rootof %s)", e.val(mi.X).S))
		v := e.freshVal("fprintf", resT)
		e.assumeWT(v, pc, st)
		return v, true
	case n == "errors.New" || n == "fmt.Errorf":
		use()
		v := e.freshVal("err", resT)
		c.assume(implies(pc, not(fmt.Sprintf("(= %s iface_nil)", v.S))))
		c.freshErrs = append(c.freshErrs, v.S)
		return v, true
	case strings.HasPrefix(n, "(*sync.Mutex).") || strings.HasPrefix(n, "(*sync.RWMutex)."):
		use()
		if e.mutexCall(callee.Name(), cm, args, st, pc) {
			e.usedStdlib["sync.Mutex as a monitor lock (Lock: havoc protected state + assume invariant; Unlock: invariant is an obligation)"] = true
		}
		if strings.HasPrefix(callee.Name(), "Try") {
			// TryLock / TryRLock: either outcome (no concurrency is modelled)
			return e.freshVal("trylock", resT), true
		}
		return Val{T: resT}, true
	case n == "(*sync.Cond).Wait" || n == "(*sync.Cond).Signal" || n == "(*sync.Cond).Broadcast":
		if e.condCall(callee.Name(), cm, st, pc) {
			e.usedStdlib["sync.Cond on a monitored object (Wait: obligation, havoc, assume; Signal/Broadcast: no state change)"] = true
			return Val{T: resT}, true
		}
		if callee.Name() != "Wait" {
			use()
			return Val{T: resT}, true
		}
		return Val{}, false
	case n == "slices.Clone" && len(args) == 1:
		// slices.Clone(s) (library model): no effect on existing memory; the result is a new array of len(s)
		// elements (nil for a nil s). The copied contents are not tracked.
		if _, ok := args[0].T.Underlying().(*types.Slice); !ok {
			return Val{}, false
		}
		use()
		loc := e.alloc(st)
		ln := fmt.Sprintf("(slen %s)", args[0].S)
		kp := c.fresh("clonecap")
		c.declare(kp, c.idx())
		c.assume(implies(pc, and(c.cmp("<=", intT, ln, kp), c.cmp("<", intT, kp, c.lit(intT, pow2(40))))))
		c.assume(implies(pc, c.cmp("<=", intT, c.idxLit(0), ln))) // (a slice has a non-negative length)
		res := fmt.Sprintf("(ite (= (sbase %s) lnil) (mkslice lnil %s %s %s) (mkslice %s %s %s %s))", args[0].S, c.idxLit(0), c.idxLit(0), c.idxLit(0), loc, c.idxLit(0), ln, kp)
		return Val{T: resT, S: c.define("clone", "Slice", res)}, true
	case n == "slices.Grow" && len(args) == 2:
		// slices.Grow(s, n) (library model): panics for n < 0; returns s itself when cap(s)-len(s) >= n, otherwise
		// a new array with the same len(s) elements and room for n more. Existing memory is unchanged.
		sl, ok := args[0].T.Underlying().(*types.Slice)
		if !ok || !scalarElem(sl.Elem()) {
			return Val{}, false
		}
		use()
		s, cnt := args[0], args[1]
		e.panicObl("bounds", "slices.Grow needs n >= 0", pc, c.cmp("<=", intT, c.idxLit(0), cnt.S))
		elem := sl.Elem()
		key, srt := c.arrKey(elem), c.arrSort(elem)
		A := st.get(c, key, srt)
		loc := e.alloc(st)
		ln, cp, off := fmt.Sprintf("(slen %s)", s.S), fmt.Sprintf("(scap %s)", s.S), fmt.Sprintf("(soff %s)", s.S)
		kp := c.fresh("growcap")
		c.declare(kp, c.idx())
		need := c.binopIdx("+", ln, cnt.S)
		c.assume(implies(pc, and(c.cmp("<=", intT, need, kp), c.cmp("<", intT, kp, c.lit(intT, pow2(40))))))
		row := c.fresh("grown")
		c.declare(row, fmt.Sprintf("(Array %s %s)", c.idx(), c.sortOf(elem)))
		c.assume(implies(pc, fmt.Sprintf("(forall ((i!g %s)) (! (=> %s (= (select %s i!g) (select (select %s (sbase %s)) %s))) :pattern ((select %s i!g))))",
			c.idx(), and(c.cmp("<=", intT, c.idxLit(0), "i!g"), c.cmp("<", intT, "i!g", ln)), row, A, s.S, c.binopIdx("+", off, "i!g"), row)))
		st.mem[key] = c.define("M_"+key, srt, fmt.Sprintf("(store %s %s %s)", A, loc, row))
		fits := c.cmp("<=", intT, cnt.S, c.binopIdx("-", cp, ln))
		res := fmt.Sprintf("(ite %s %s (mkslice %s %s %s %s))", fits, s.S, loc, c.idxLit(0), ln, kp)
		return Val{T: resT, S: c.define("grow", "Slice", res)}, true
	case n == "io.ReadFull" && len(args) == 2:
		// io.ReadFull(r, buf) (trusted library contract): only buf's elements change; 0 <= n <= len(buf);
		// err == nil exactly when n == len(buf). The reader's own state is the heap of an interface value: havoc.
		if _, ok := args[1].T.Underlying().(*types.Slice); !ok {
			return Val{}, false
		}
		use()
		// effects: the bytes of buf, and the object behind the reader (a connection, a buffer...)
		if _, isIface := args[0].T.Underlying().(*types.Interface); isIface {
			c.declareFun("unbox_Loc", []string{"Iface"}, "Loc")
			if err := e.havocElems(st, args[1], u8); err != nil {
				e.havocAll(st, "io.ReadFull (drives an io.Reader)")
			} else {
				// the reader's object is none of this function's own variable cells (captured or local)
				rr := fmt.Sprintf("(rootof (unbox_Loc %s))", args[0].S)
				for _, fv := range e.fn.FreeVars {
					if _, ok := fv.Type().Underlying().(*types.Pointer); ok {
						c.assume(implies(pc, fmt.Sprintf("(not (= %s (rootof %s)))", rr, e.val(fv).S)))
					}
				}
				var allocs []string
				for v, x := range e.vals {
					if _, ok := v.(*ssa.Alloc); ok {
						allocs = append(allocs, x.S)
					}
				}
				sortStrings(allocs) // (deterministic script)
				for _, a := range allocs {
					c.assume(implies(pc, fmt.Sprintf("(not (= %s (rootof %s)))", rr, a)))
				}
				// a reader of statically known type *T (the interface was made from it here) is not the object a
				// parameter of type *S points into when neither struct type contains the other by value
				// (Go memory safety: distinct allocations of unrelated types)
				if len(cm.Args) > 0 {
					if mi, ok := cm.Args[0].(*ssa.MakeInterface); ok {
						if tp, ok := mi.X.Type().Underlying().(*types.Pointer); ok {
							for _, prm := range e.fn.Params {
								sp, ok := prm.Type().Underlying().(*types.Pointer)
								if !ok || containsByValue(tp.Elem(), sp.Elem(), 0) || containsByValue(sp.Elem(), tp.Elem(), 0) {
									continue
								}
								c.assume(implies(pc, fmt.Sprintf("(not (= %s (rootof %s)))", rr, e.val(prm).S)))
							}
						}
					}
				}
				e.havocObject(st, rr)
				e.note("io.ReadFull: havocs the destination bytes and the reader's own object (assumes the reader keeps no reference to other memory of this function)")
			}
		} else {
			e.havocAll(st, "io.ReadFull (drives an io.Reader)")
		}
		v := e.freshVal("readfull", resT)
		e.assumeWT(v, pc, st)
		if len(v.Tuple) == 2 {
			nn, er := v.Tuple[0].S, v.Tuple[1].S
			ln := fmt.Sprintf("(slen %s)", args[1].S)
			c.assume(implies(pc, and(c.cmp("<=", intT, c.idxLit(0), nn), c.cmp("<=", intT, nn, ln))))
			c.assume(implies(pc, fmt.Sprintf("(= (= %s iface_nil) (= %s %s))", er, nn, ln)))
		}
		return v, true
	case n == "strings.HasPrefix":
		use()
		c.declareFun("str_prefix", []string{"Str", "Str"}, "Bool")
		return Val{T: resT, S: fmt.Sprintf("(str_prefix %s %s)", args[0].S, args[1].S)}, true
	case n == "math/rand.Intn" || n == "(*math/rand.Rand).Intn" || n == "(*math/rand.Rand).Int31n" || n == "math/rand.Int31n":
		use()
		a := args[len(args)-1]
		e.panicObl("panic", "rand.Intn(n) requires n > 0", pc, c.cmp(">", a.T, a.S, c.lit(a.T, bigZero)))
		v := e.freshVal("rnd", resT)
		c.assume(implies(pc, and(c.cmp("<=", a.T, c.lit(a.T, bigZero), v.S), c.cmp("<", a.T, v.S, a.S))))
		return v, true
	case strings.HasPrefix(n, "(*sync/atomic."):
		return e.atomicCall(n, callee, cm, args, resT, st, pc)
	case strings.HasPrefix(n, "sync/atomic."):
		return e.atomicFunc(n, callee, cm, args, resT, st, pc)
	}
	if stdlibPureNames[n] {
		use()
		v := e.freshVal("pure_"+sanitize(callee.Name()), resT)
		e.assumeWT(v, pc, st)
		return v, true
	}
	return Val{}, false
}


func (e *Encoder) atomicCall(n string, callee *ssa.Function, cm *ssa.CallCommon, args []Val, resT types.Type, st *State, pc string) (Val, bool) {
	c := e.c
	fi, ft := atomicField(cm.Args[0].Type())
	if fi < 0 {
		return Val{}, false
	}
	e.usedStdlib[n+" (sequentially consistent single-word op)"] = true
	loc := c.lfield(args[0].S, cm.Args[0].Type().Underlying().(*types.Pointer).Elem().Underlying().(*types.Struct), fi)
	isBool := strings.Contains(n, "atomic.Bool)")
	toField := func(v Val) string {
		if isBool {
			return fmt.Sprintf("(ite %s %s %s)", v.S, c.lit(ft, big.NewInt(1)), c.lit(ft, bigZero))
		}
		return v.S
	}
	fromField := func(s string) Val {
		if isBool {
			return Val{T: types.Typ[types.Bool], S: not(fmt.Sprintf("(= %s %s)", s, c.lit(ft, bigZero)))}
		}
		return Val{T: resT, S: s}
	}
	e.atomicEvent(callee.Name(), cm, loc, ft, args, st, pc)
	e.auditAtomicOp(callee.Name(), cm, ft, loc, args, st, pc)
	switch callee.Name() {
	case "Load":
		v := e.load(st, loc, ft)
		e.assumeWT(v, pc, st)
		return fromField(v.S), true
	case "Store":
		e.store(st, loc, ft, toField(args[1]))
		return Val{T: resT}, true
	case "Swap":
		old := e.load(st, loc, ft)
		o := c.define("old", c.sortOf(ft), old.S)
		e.store(st, loc, ft, toField(args[1]))
		return fromField(o), true
	case "Add":
		old := e.load(st, loc, ft)
		nv := c.define("new", c.sortOf(ft), c.binop("+", ft, old.S, args[1].S, ft))
		e.store(st, loc, ft, nv)
		return Val{T: resT, S: nv}, true
	case "CompareAndSwap":
		old := e.load(st, loc, ft)
		ok := c.define("cas", "Bool", fmt.Sprintf("(= %s %s)", old.S, toField(args[1])))
		key, srt := c.memKey(ft), c.memSort(ft)
		cur := st.get(c, key, srt)
		st.mem[key] = c.define("M_"+key, srt, fmt.Sprintf("(ite %s (store %s %s %s) %s)", ok, cur, loc, toField(args[2]), cur))
		return Val{T: types.Typ[types.Bool], S: ok}, true
	}
	return Val{}, false
}

func (e *Encoder) atomicFunc(n string, callee *ssa.Function, cm *ssa.CallCommon, args []Val, resT types.Type, st *State, pc string) (Val, bool) {
	c := e.c
	name := callee.Name()
	pt, ok := cm.Args[0].Type().Underlying().(*types.Pointer)
	if !ok {
		return Val{}, false
	}
	ft := pt.Elem()
	loc := args[0].S
	e.usedStdlib[n+" (sequentially consistent single-word op)"] = true
	switch {
	case strings.HasPrefix(name, "Load"):
		v := e.load(st, loc, ft)
		e.assumeWT(v, pc, st)
		return v, true
	case strings.HasPrefix(name, "Store"):
		e.store(st, loc, ft, args[1].S)
		return Val{T: resT}, true
	case strings.HasPrefix(name, "Add"):
		old := e.load(st, loc, ft)
		nv := c.define("new", c.sortOf(ft), c.binop("+", ft, old.S, args[1].S, ft))
		e.store(st, loc, ft, nv)
		return Val{T: resT, S: nv}, true
	case strings.HasPrefix(name, "Swap"):
		old := e.load(st, loc, ft)
		o := c.define("old", c.sortOf(ft), old.S)
		e.store(st, loc, ft, args[1].S)
		return Val{T: resT, S: o}, true
	case strings.HasPrefix(name, "CompareAndSwap"):
		old := e.load(st, loc, ft)
		okv := c.define("cas", "Bool", fmt.Sprintf("(= %s %s)", old.S, args[1].S))
		key, srt := c.memKey(ft), c.memSort(ft)
		cur := st.get(c, key, srt)
		st.mem[key] = c.define("M_"+key, srt, fmt.Sprintf("(ite %s (store %s %s %s) %s)", okv, cur, loc, args[2].S, cur))
		return Val{T: types.Typ[types.Bool], S: okv}, true
	}
	return Val{}, false
}
