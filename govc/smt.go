package main

import (
	"fmt"
	"go/types"
	"math/big"
	"strings"
)

type Mode int

const (
	ModeBV Mode = iota
	ModeInt
)

func (m Mode) String() string {
	if m == ModeBV {
		return "bv"
	}
	return "int"
}

// Val is a typed SMT term. Untyped integer constants have T == nil and C != nil.
type Val struct {
	T     types.Type
	S     string
	C     *big.Int
	Tuple []Val
	Dyn   types.Type // for an interface value made from a value of this type at this very point (MakeInterface)
}

// constMethodHook: (dynamic type, method name) -> the literal a constant method returns (set by the loader; see
// Program.constMethod).
var constMethodHook func(t types.Type, name string) (*big.Int, types.Type, bool)

var mathIntType = types.NewNamed(types.NewTypeName(0, nil, "mathint", nil), types.Typ[types.Int64], nil)

func isMathInt(t types.Type) bool { return t == types.Type(mathIntType) }

// Ctx accumulates an SMT script for one function (or lemma).
type Ctx struct {
	rng      map[string]termRange // static ranges of int-mode terms (see rangedOp)
	mode     Mode
	decls    []string // declarations that may appear in any order (consts, sorts)
	sortDecl []string // datatype declarations for struct sorts (must precede decls)
	script   []string // ordered define-fun / assert lines
	nfresh   int
	structs  map[string]string // struct type string -> sort name
	structTs []*types.Struct
	strs     map[string]string // string literal -> const name
	strOrder []string
	declared map[string]bool
	uf       map[string]bool
	specs    *SpecEnv
	notes    map[string]bool // abstraction notes (UF used for op X...)
	tparams  map[string]bool
	globals   map[string]int
	cspecs    map[string]*compiledSpec
	specOrder []string
	memSorts  map[string]string
	funDecls  []string
	constGlobalsUsed []string
	freshErrs        []string // results of errors.New / fmt.Errorf in this function
	structIDs map[string]int
	handUnfolded map[string]bool
	abstractMul  bool
	memAsConst   bool
}

func NewCtx(mode Mode, specs *SpecEnv) *Ctx {
	return &Ctx{mode: mode, structs: map[string]string{}, strs: map[string]string{}, declared: map[string]bool{}, uf: map[string]bool{}, specs: specs, notes: map[string]bool{}, tparams: map[string]bool{}, memSorts: map[string]string{}}
}

func (c *Ctx) idx() string {
	if c.mode == ModeBV {
		return "(_ BitVec 64)"
	}
	return "Int"
}

func (c *Ctx) fresh(prefix string) string {
	c.nfresh++
	return fmt.Sprintf("%s!%d", prefix, c.nfresh)
}

func (c *Ctx) declare(name, sort string) {
	if c.declared[name] {
		return
	}
	c.declared[name] = true
	c.decls = append(c.decls, fmt.Sprintf("(declare-const %s %s)", name, sort))
}

func (c *Ctx) declareFun(name string, args []string, res string) {
	if c.declared[name] {
		return
	}
	c.declared[name] = true
	c.funDecls = append(c.funDecls, fmt.Sprintf("(declare-fun %s (%s) %s)", name, strings.Join(args, " "), res))
}

// define introduces a named term in script order and returns the name.
func (c *Ctx) define(prefix, sort, term string) string {
	n := c.fresh(prefix)
	if c.memAsConst && strings.HasPrefix(sort, "(Array ") {
		// memories are declared constants constrained by an equation, not macros: a macro is expanded inside
		// quantifier patterns, where select-over-store rewrites to an ite that is not a legal pattern
		c.script = append(c.script, fmt.Sprintf("(declare-const %s %s)", n, sort), fmt.Sprintf("(assert (= %s %s))", n, term))
		return n
	}
	c.script = append(c.script, fmt.Sprintf("(define-fun %s () %s %s)", n, sort, term))
	return n
}

func (c *Ctx) assume(f string) {
	c.script = append(c.script, fmt.Sprintf("(assert %s)", f))
}

func (c *Ctx) pos() int { return len(c.script) }

func intInfo(t types.Type) (w int, signed bool, ok bool) {
	if isMathInt(t) {
		return 0, true, true
	}
	b, isb := t.Underlying().(*types.Basic)
	if !isb {
		return 0, false, false
	}
	switch b.Kind() {
	case types.Int8:
		return 8, true, true
	case types.Int16:
		return 16, true, true
	case types.Int32, types.UntypedRune:
		return 32, true, true
	case types.Int64, types.Int, types.UntypedInt:
		return 64, true, true
	case types.Uint8:
		return 8, false, true
	case types.Uint16:
		return 16, false, true
	case types.Uint32:
		return 32, false, true
	case types.Uint64, types.Uint, types.Uintptr:
		return 64, false, true
	}
	return 0, false, false
}

func isInt(t types.Type) bool { _, _, ok := intInfo(t); return ok }

func isBool(t types.Type) bool {
	b, ok := t.Underlying().(*types.Basic)
	return ok && b.Info()&types.IsBoolean != 0
}
func isString(t types.Type) bool {
	b, ok := t.Underlying().(*types.Basic)
	return ok && b.Info()&types.IsString != 0
}
func isFloat(t types.Type) bool {
	b, ok := t.Underlying().(*types.Basic)
	return ok && b.Info()&(types.IsFloat|types.IsComplex) != 0
}

func sanitize(s string) string {
	var sb strings.Builder
	for _, r := range s {
		switch {
		case r >= 'a' && r <= 'z', r >= 'A' && r <= 'Z', r >= '0' && r <= '9', r == '_':
			sb.WriteRune(r)
		default:
			sb.WriteByte('_')
		}
	}
	return sb.String()
}

// sortOf maps a Go type to an SMT sort.
func (c *Ctx) sortOf(t types.Type) string {
	if isMathInt(t) {
		return "Int"
	}
	if tp, ok := t.(*types.TypeParam); ok {
		n := "TP_" + sanitize(tp.Obj().Name())
		if !c.tparams[n] {
			c.tparams[n] = true
			c.sortDecl = append(c.sortDecl, fmt.Sprintf("(declare-datatypes ((%s 0)) (((mk_%s (id_%s Int)))))", n, n, n))
		}
		return n
	}
	switch u := t.Underlying().(type) {
	case *types.Basic:
		if w, _, ok := intInfo(u); ok {
			if c.mode == ModeBV {
				return fmt.Sprintf("(_ BitVec %d)", w)
			}
			return "Int"
		}
		switch {
		case u.Info()&types.IsBoolean != 0:
			return "Bool"
		case u.Info()&types.IsString != 0:
			return "Str"
		case u.Info()&(types.IsFloat|types.IsComplex) != 0:
			return "F64"
		case u.Kind() == types.UnsafePointer:
			return "Loc"
		case u.Kind() == types.UntypedNil:
			return "Loc"
		}
	case *types.Pointer:
		return "Loc"
	case *types.Slice:
		return "Slice"
	case *types.Struct:
		return c.structSort(u)
	case *types.Array:
		return fmt.Sprintf("(Array %s %s)", c.idx(), c.sortOf(u.Elem()))
	case *types.Interface:
		return "Iface"
	case *types.Map:
		return "MapRef"
	case *types.Chan:
		return "ChanRef"
	case *types.Signature:
		return "Fn"
	case *types.Tuple:
		return "Tuple?"
	}
	return "Opaque"
}

func (c *Ctx) structSort(s *types.Struct) string {
	key := s.String()
	if n, ok := c.structs[key]; ok {
		return n
	}
	n := fmt.Sprintf("St%d", len(c.structs))
	c.structs[key] = n
	// field sorts first (may recursively declare)
	var fs []string
	for i := 0; i < s.NumFields(); i++ {
		fs = append(fs, fmt.Sprintf("(%s_f%d %s)", n, i, c.sortOf(s.Field(i).Type())))
	}
	if len(fs) == 0 {
		c.sortDecl = append(c.sortDecl, fmt.Sprintf("(declare-datatypes ((%s 0)) (((mk_%s))))", n, n))
	} else {
		c.sortDecl = append(c.sortDecl, fmt.Sprintf("(declare-datatypes ((%s 0)) (((mk_%s %s))))", n, n, strings.Join(fs, " ")))
	}
	return n
}

// memKey names the memory map holding values of (non-aggregate) type t.
func (c *Ctx) memKey(t types.Type) string {
	if _, ok := t.(*types.TypeParam); ok {
		return c.sortOf(t)
	}
	switch u := t.Underlying().(type) {
	case *types.Basic:
		if u.Kind() == types.UnsafePointer {
			return "ptr"
		}
		if u.Kind() == types.Uint8 {
			return "u8"
		}
		return u.Name()
	case *types.Pointer:
		return "ptr"
	case *types.Slice:
		return "slice"
	case *types.Interface:
		return "iface"
	case *types.Map:
		return "map"
	case *types.Chan:
		return "chan"
	case *types.Signature:
		return "fn"
	}
	return "opaque"
}

func (c *Ctx) memSort(t types.Type) string {
	return fmt.Sprintf("(Array Loc %s)", c.sortOf(t))
}

func (c *Ctx) lit(t types.Type, v *big.Int) string {
	if c.mode == ModeBV && !isMathInt(t) {
		w, _, _ := intInfo(t)
		m := new(big.Int).Lsh(big.NewInt(1), uint(w))
		x := new(big.Int).Mod(v, m)
		return fmt.Sprintf("(_ bv%s %d)", x.String(), w)
	}
	return intLitS(v)
}

func intLitS(v *big.Int) string {
	if v.Sign() < 0 {
		return "(- " + new(big.Int).Neg(v).String() + ")"
	}
	return v.String()
}

func (c *Ctx) idxLit(n int64) string {
	if c.mode == ModeBV {
		return fmt.Sprintf("(_ bv%d 64)", uint64(n))
	}
	return intLitS(big.NewInt(n))
}

func pow2(n int) *big.Int { return new(big.Int).Lsh(big.NewInt(1), uint(n)) }

func minMax(w int, signed bool) (*big.Int, *big.Int) {
	if signed {
		return new(big.Int).Neg(pow2(w - 1)), new(big.Int).Sub(pow2(w-1), big.NewInt(1))
	}
	return big.NewInt(0), new(big.Int).Sub(pow2(w), big.NewInt(1))
}

// inRange returns the range constraint for an int-mode integer of type t ("" if none).
func (c *Ctx) inRange(t types.Type, x string) string {
	if c.mode != ModeInt || isMathInt(t) {
		return ""
	}
	w, s, ok := intInfo(t)
	if !ok {
		return ""
	}
	lo, hi := minMax(w, s)
	return fmt.Sprintf("(and (<= %s %s) (<= %s %s))", intLitS(lo), x, x, intLitS(hi))
}

// wrap1: result of a single +/- on in-range operands; wrapm: general.
func (c *Ctx) wrap1(t types.Type, e string) string {
	if isMathInt(t) {
		return e
	}
	w, s, _ := intInfo(t)
	lo, hi := minMax(w, s)
	m := intLitS(pow2(w))
	return fmt.Sprintf("(let ((r!w %s)) (ite (> r!w %s) (- r!w %s) (ite (< r!w %s) (+ r!w %s) r!w)))", e, intLitS(hi), m, intLitS(lo), m)
}

// Static ranges of int-mode terms (keyed by the term text): literals, slice header components, values widened
// from a narrower integer type, and sums / differences / products of such terms. They rest on well-typedness
// only (a uint8 value is in 0..255). An operation whose mathematical result provably stays inside its type is
// encoded without the wrap-around term.
type termRange struct{ lo, hi *big.Int }

func (c *Ctx) noteRange(x string, lo, hi *big.Int) {
	if c.rng == nil {
		c.rng = map[string]termRange{}
	}
	if old, ok := c.rng[x]; ok {
		// keep the tighter bounds
		if old.lo.Cmp(lo) > 0 {
			lo = old.lo
		}
		if old.hi.Cmp(hi) < 0 {
			hi = old.hi
		}
	}
	c.rng[x] = termRange{lo, hi}
}

func (c *Ctx) rangeOf(x string) (termRange, bool) {
	if v, ok := constOf(x); ok {
		return termRange{v, v}, true
	}
	if strings.HasPrefix(x, "(slen ") || strings.HasPrefix(x, "(scap ") || strings.HasPrefix(x, "(soff ") {
		return termRange{big.NewInt(0), pow2(40)}, true
	}
	r, ok := c.rng[x]
	return r, ok
}

func (c *Ctx) rangedOp(op string, t types.Type, x, y string) (string, bool) {
	if isMathInt(t) {
		return "", false
	}
	rx, ok1 := c.rangeOf(x)
	ry, ok2 := c.rangeOf(y)
	if !ok1 || !ok2 {
		return "", false
	}
	var lo, hi *big.Int
	switch op {
	case "+":
		lo, hi = new(big.Int).Add(rx.lo, ry.lo), new(big.Int).Add(rx.hi, ry.hi)
	case "-":
		lo, hi = new(big.Int).Sub(rx.lo, ry.hi), new(big.Int).Sub(rx.hi, ry.lo)
	case "*":
		ps := []*big.Int{new(big.Int).Mul(rx.lo, ry.lo), new(big.Int).Mul(rx.lo, ry.hi), new(big.Int).Mul(rx.hi, ry.lo), new(big.Int).Mul(rx.hi, ry.hi)}
		lo, hi = ps[0], ps[0]
		for _, p := range ps[1:] {
			if p.Cmp(lo) < 0 {
				lo = p
			}
			if p.Cmp(hi) > 0 {
				hi = p
			}
		}
	default:
		return "", false
	}
	w, s, _ := intInfo(t)
	tl, th := minMax(w, s)
	if lo.Cmp(tl) < 0 || hi.Cmp(th) > 0 {
		return "", false
	}
	r := fmt.Sprintf("(%s %s %s)", op, x, y)
	c.noteRange(r, lo, hi)
	return r, true
}

func (c *Ctx) wrapm(t types.Type, e string) string {
	if isMathInt(t) {
		return e
	}
	w, s, _ := intInfo(t)
	m := intLitS(pow2(w))
	if !s {
		return fmt.Sprintf("(mod %s %s)", e, m)
	}
	h := intLitS(pow2(w - 1))
	return fmt.Sprintf("(- (mod (+ %s %s) %s) %s)", e, h, m, h)
}

func (c *Ctx) ufInt(name string, nargs int) string {
	if !c.uf[name] {
		c.uf[name] = true
		args := make([]string, nargs)
		for i := range args {
			args[i] = "Int"
		}
		c.declareFun(name, args, "Int")
		c.notes["int-mode: operator abstracted as uninterpreted function "+name] = true
		// the identities with zero that hold for the real operator at every width (so that, e.g., the zig-zag
		// of 0 is 0 in integer mode too)
		ax := func(lhs, rhs string) {
			c.decls = append(c.decls, fmt.Sprintf("(assert (forall ((x!u Int)) (! (= %s %s) :pattern (%s))))", lhs, rhs, lhs))
		}
		op := name
		if i := strings.Index(name, "_"); i > 0 {
			op = name[:i]
		}
		if nargs == 2 {
			l0, r0 := fmt.Sprintf("(%s 0 x!u)", name), fmt.Sprintf("(%s x!u 0)", name)
			switch op {
			case "and":
				ax(l0, "0")
				ax(r0, "0")
			case "or", "xor":
				ax(l0, "x!u")
				ax(r0, "x!u")
			case "andnot":
				ax(l0, "0")
				ax(r0, "x!u")
			case "shl", "shr":
				ax(l0, "0")
				ax(r0, "x!u")
			}
		}
	}
	return name
}

func constOf(s string) (*big.Int, bool) {
	// recognise int-mode literals
	if strings.HasPrefix(s, "(- ") && strings.HasSuffix(s, ")") {
		if v, ok := new(big.Int).SetString(s[3:len(s)-1], 10); ok {
			return v.Neg(v), true
		}
		return nil, false
	}
	v, ok := new(big.Int).SetString(s, 10)
	return v, ok
}

func isPow2Minus1(v *big.Int) (int, bool) {
	if v.Sign() <= 0 {
		return 0, false
	}
	x := new(big.Int).Add(v, big.NewInt(1))
	if x.BitLen()-1 >= 0 && new(big.Int).Lsh(big.NewInt(1), uint(x.BitLen()-1)).Cmp(x) == 0 {
		return x.BitLen() - 1, true
	}
	return 0, false
}

// binop encodes x op y where both have integer type t (shift: y has type ty).
func (c *Ctx) binop(op string, t types.Type, x, y string, ty types.Type) string {
	w, signed, _ := intInfo(t)
	if c.mode == ModeBV && !isMathInt(t) {
		switch op {
		case "+":
			return fmt.Sprintf("(bvadd %s %s)", x, y)
		case "-":
			return fmt.Sprintf("(bvsub %s %s)", x, y)
		case "*":
			if c.abstractMul {
				// `abstract mul`: multiplication as an uninterpreted function (sound for validity; equal
				// products of equal operands stay equal without bit-blasting two multipliers)
				n := fmt.Sprintf("umul_%d", w)
				bv := fmt.Sprintf("(_ BitVec %d)", w)
				c.declareFun(n, []string{bv, bv}, bv)
				return fmt.Sprintf("(%s %s %s)", n, x, y)
			}
			return fmt.Sprintf("(bvmul %s %s)", x, y)
		case "/":
			if signed {
				return fmt.Sprintf("(bvsdiv %s %s)", x, y)
			}
			return fmt.Sprintf("(bvudiv %s %s)", x, y)
		case "%":
			if signed {
				return fmt.Sprintf("(bvsrem %s %s)", x, y)
			}
			return fmt.Sprintf("(bvurem %s %s)", x, y)
		case "&":
			return fmt.Sprintf("(bvand %s %s)", x, y)
		case "|":
			return fmt.Sprintf("(bvor %s %s)", x, y)
		case "^":
			return fmt.Sprintf("(bvxor %s %s)", x, y)
		case "&^":
			return fmt.Sprintf("(bvand %s (bvnot %s))", x, y)
		case "<<", ">>":
			wy, _, _ := intInfo(ty)
			var amt string
			switch {
			case wy == w:
				amt = y
			case wy < w:
				amt = fmt.Sprintf("((_ zero_extend %d) %s)", w-wy, y)
			default:
				amt = fmt.Sprintf("(ite (bvuge %s (_ bv%d %d)) (_ bv%d %d) ((_ extract %d 0) %s))", y, w, wy, w, w, w-1, y)
			}
			if op == "<<" {
				return fmt.Sprintf("(bvshl %s %s)", x, amt)
			}
			if signed {
				return fmt.Sprintf("(bvashr %s %s)", x, amt)
			}
			return fmt.Sprintf("(bvlshr %s %s)", x, amt)
		}
		panic("bv binop " + op)
	}
	// int mode
	cy, yconst := constOf(y)
	cx, xconst := constOf(x)
	switch op {
	case "+", "-":
		// lengths, capacities and offsets of slices are in [0, 2^40) and small literals are small: their sum or
		// difference cannot leave a 64-bit type, so no wrap-around term (an ite) is needed
		if w, _, _ := intInfo(t); w == 64 && smallTerm(x) && smallTerm(y) {
			return fmt.Sprintf("(%s %s %s)", op, x, y)
		}
		if r, ok := c.rangedOp(op, t, x, y); ok {
			return r
		}
		return c.wrap1(t, fmt.Sprintf("(%s %s %s)", op, x, y))
	case "*":
		if r, ok := c.rangedOp(op, t, x, y); ok {
			return r
		}
		return c.wrapm(t, fmt.Sprintf("(* %s %s)", x, y))
	case "/":
		if yconst && cy.Sign() > 0 {
			if !signed {
				return fmt.Sprintf("(div %s %s)", x, y)
			}
			return c.wrap1(t, fmt.Sprintf("(ite (>= %s 0) (div %s %s) (- (div (- %s) %s)))", x, x, y, x, y))
		}
		return c.wrap1(t, fmt.Sprintf("(let ((q!d (div (abs %s) (abs %s)))) (ite (= (>= %s 0) (>= %s 0)) q!d (- q!d)))", x, y, x, y))
	case "%":
		if !signed {
			return fmt.Sprintf("(mod %s %s)", x, y)
		}
		return fmt.Sprintf("(ite (>= %s 0) (mod %s (abs %s)) (- (mod (- %s) (abs %s))))", x, x, y, x, y)
	case "&":
		if yconst {
			if k, ok := isPow2Minus1(cy); ok {
				return fmt.Sprintf("(mod %s %s)", x, intLitS(pow2(k)))
			}
		}
		if xconst {
			if k, ok := isPow2Minus1(cx); ok {
				return fmt.Sprintf("(mod %s %s)", y, intLitS(pow2(k)))
			}
		}
		return fmt.Sprintf("(%s %s %s)", c.ufInt(fmt.Sprintf("and_%d", w), 2), x, y)
	case "|":
		return fmt.Sprintf("(%s %s %s)", c.ufInt(fmt.Sprintf("or_%d", w), 2), x, y)
	case "^":
		return fmt.Sprintf("(%s %s %s)", c.ufInt(fmt.Sprintf("xor_%d", w), 2), x, y)
	case "&^":
		return fmt.Sprintf("(%s %s %s)", c.ufInt(fmt.Sprintf("andnot_%d", w), 2), x, y)
	case "<<":
		if yconst && cy.Sign() >= 0 && cy.IsInt64() && cy.Int64() < 128 {
			return c.wrapm(t, fmt.Sprintf("(* %s %s)", x, intLitS(pow2(int(cy.Int64())))))
		}
		return fmt.Sprintf("(%s %s %s)", c.ufInt(fmt.Sprintf("shl_%d_%v", w, signed), 2), x, y)
	case ">>":
		if yconst && cy.Sign() >= 0 && cy.IsInt64() && cy.Int64() < 128 {
			return fmt.Sprintf("(div %s %s)", x, intLitS(pow2(int(cy.Int64()))))
		}
		return fmt.Sprintf("(%s %s %s)", c.ufInt(fmt.Sprintf("shr_%d_%v", w, signed), 2), x, y)
	}
	panic("int binop " + op)
}

func (c *Ctx) cmp(op string, t types.Type, x, y string) string {
	_, signed, _ := intInfo(t)
	if c.mode == ModeBV && !isMathInt(t) {
		var f string
		switch op {
		case "<":
			f = "bvult"
			if signed {
				f = "bvslt"
			}
		case "<=":
			f = "bvule"
			if signed {
				f = "bvsle"
			}
		case ">":
			f = "bvugt"
			if signed {
				f = "bvsgt"
			}
		case ">=":
			f = "bvuge"
			if signed {
				f = "bvsge"
			}
		}
		return fmt.Sprintf("(%s %s %s)", f, x, y)
	}
	return fmt.Sprintf("(%s %s %s)", op, x, y)
}

func (c *Ctx) neg(t types.Type, x string) string {
	if c.mode == ModeBV && !isMathInt(t) {
		return fmt.Sprintf("(bvneg %s)", x)
	}
	return c.wrap1(t, fmt.Sprintf("(- %s)", x))
}

func (c *Ctx) bitnot(t types.Type, x string) string {
	w, signed, _ := intInfo(t)
	if c.mode == ModeBV {
		return fmt.Sprintf("(bvnot %s)", x)
	}
	if signed {
		return fmt.Sprintf("(- (- %s) 1)", x)
	}
	_, hi := minMax(w, false)
	return fmt.Sprintf("(- %s %s)", intLitS(hi), x)
}

// convert integer x of type from to integer type to.
func (c *Ctx) convert(from, to types.Type, x string) string {
	if isMathInt(to) {
		if c.mode == ModeBV {
			panic("mathint is not available in bv mode")
		}
		return x
	}
	wf, sf, _ := intInfo(from)
	wt, st, _ := intInfo(to)
	if c.mode == ModeBV {
		switch {
		case wt == wf:
			return x
		case wt < wf:
			return fmt.Sprintf("((_ extract %d 0) %s)", wt-1, x)
		default:
			if sf {
				return fmt.Sprintf("((_ sign_extend %d) %s)", wt-wf, x)
			}
			return fmt.Sprintf("((_ zero_extend %d) %s)", wt-wf, x)
		}
	}
	if isMathInt(from) {
		return c.wrapm(to, x)
	}
	lf, hf := minMax(wf, sf)
	lt, ht := minMax(wt, st)
	if lf.Cmp(lt) >= 0 && hf.Cmp(ht) <= 0 {
		// widening: the value keeps the range of its (narrower) source type - remembered so that arithmetic on it
		// that cannot leave the wider type needs no wrap-around term
		if wf < wt {
			c.noteRange(x, lf, hf)
		}
		return x
	}
	return c.wrapm(to, x)
}

func (c *Ctx) strConst(s string) string {
	if n, ok := c.strs[s]; ok {
		return n
	}
	n := fmt.Sprintf("str!%d", len(c.strs))
	c.strs[s] = n
	c.strOrder = append(c.strOrder, s)
	return n
}

func and(xs ...string) string {
	var ys []string
	for _, x := range xs {
		if x == "" || x == "true" {
			continue
		}
		ys = append(ys, x)
	}
	switch len(ys) {
	case 0:
		return "true"
	case 1:
		return ys[0]
	}
	return "(and " + strings.Join(ys, " ") + ")"
}

func or(xs ...string) string {
	var ys []string
	for _, x := range xs {
		if x == "false" {
			continue
		}
		if x == "true" {
			return "true"
		}
		ys = append(ys, x)
	}
	switch len(ys) {
	case 0:
		return "false"
	case 1:
		return ys[0]
	}
	return "(or " + strings.Join(ys, " ") + ")"
}

func not(x string) string {
	switch x {
	case "true":
		return "false"
	case "false":
		return "true"
	}
	return "(not " + x + ")"
}

func implies(a, b string) string {
	if a == "true" {
		return b
	}
	return fmt.Sprintf("(=> %s %s)", a, b)
}

// Prelude emits sort declarations shared by every query of this context.
func (c *Ctx) Prelude() string {
	var sb strings.Builder
	idx := c.idx()
	specText := ""
	if c.specs != nil {
		specText = c.specs.emit(c)
	}
	sb.WriteString("(set-option :produce-models true)\n(set-logic ALL)\n")
	// (A flattened (object id, path) representation was tried to make rootof a selector; it made the
	// solvers slower and is not used.)
	sb.WriteString(fmt.Sprintf("(declare-datatypes ((Loc 0)) (((lnil) (lroot (rid Int)) (lfield (fbase Loc) (fid Int)) (lelem (ebase Loc) (eidx %s)))))\n", idx))
	sb.WriteString("(define-fun is_lelem ((l Loc)) Bool ((_ is lelem) l))\n")
	sb.WriteString("(define-fun-rec rootof ((l Loc)) Int (ite ((_ is lnil) l) (- 1) (ite ((_ is lroot) l) (rid l) (ite ((_ is lfield) l) (rootof (fbase l)) (rootof (ebase l))))))\n")
	sb.WriteString(fmt.Sprintf("(declare-datatypes ((Slice 0)) (((mkslice (sbase Loc) (soff %s) (slen %s) (scap %s)))))\n", idx, idx, idx))
	// Opaque value sorts are one-constructor datatypes over an integer id, so that nil / zero values and
	// string literals are *values* (cvc5 requires values in constant arrays) and literals are distinct.
	sb.WriteString("(declare-datatypes ((Str 0)) (((str_mk (str_id Int)))))\n(declare-datatypes ((F64 0)) (((f64_mk (f64_id Int)))))\n")
	sb.WriteString("(declare-datatypes ((Iface 0)) (((iface_nil) (iface_mk (iface_id Int)))))\n(define-sort MapRef () Int)\n")
	sb.WriteString("(declare-datatypes ((ChanRef 0)) (((chan_nil) (chan_mk (chan_id Int)))))\n(declare-datatypes ((Fn 0)) (((fn_nil) (fn_mk (fn_id Int)))))\n(declare-datatypes ((Opaque 0)) (((opq_mk (opq_id Int)))))\n")
	sb.WriteString(fmt.Sprintf("(declare-fun str_len (Str) %s)\n(declare-fun str_at (Str %s) %s)\n", idx, idx, c.sortOf(types.Typ[types.Uint8])))
	sb.WriteString("(define-fun map_nil () MapRef (- 1))\n(declare-fun iface_type (Iface) Int)\n(define-fun fzero () F64 (f64_mk 0))\n")
	for _, s := range c.sortDecl {
		sb.WriteString(s + "\n")
	}
	// string constants
	for i, s := range c.strOrder {
		n := c.strs[s]
		sb.WriteString(fmt.Sprintf("(define-fun %s () Str (str_mk %d))\n", n, i))
		sb.WriteString(fmt.Sprintf("(assert (= (str_len %s) %s))\n", n, c.idxLit(int64(len(s)))))
		if len(s) <= 600 {
			for j := 0; j < len(s); j++ {
				sb.WriteString(fmt.Sprintf("(assert (= (str_at %s %s) %s))\n", n, c.idxLit(int64(j)), c.lit(types.Typ[types.Uint8], big.NewInt(int64(s[j])))))
			}
		}
		_ = i
	}
	for _, d := range c.funDecls {
		sb.WriteString(d + "\n")
	}
	for _, g := range c.constGlobalsUsed {
		sb.WriteString(fmt.Sprintf("(declare-const %s Iface)\n(assert (not (= %s iface_nil)))\n", g, g))
	}
	if len(c.constGlobalsUsed) > 1 {
		sb.WriteString("(assert (distinct " + strings.Join(c.constGlobalsUsed, " ") + "))\n")
	}
	sb.WriteString(specText)
	for _, d := range c.decls {
		sb.WriteString(d + "\n")
	}
	// an error value made by errors.New / fmt.Errorf during the call is a new object: it is none of the
	// package-level error constants
	for _, fe := range c.freshErrs {
		for _, g := range c.constGlobalsUsed {
			sb.WriteString(fmt.Sprintf("(assert (not (= %s %s)))\n", fe, g))
		}
	}
	return sb.String()
}

// ---- two-level memory: scalar array elements live in arr_<key> : Array Loc (Array IDX T) ----

// lfield builds the location of field i of the struct (of type st) at loc. Field ids are unique per
// (struct type, field), so fields of different struct types are distinct locations by construction:
// Go's type system (absent unsafe) never lets them alias.
func (c *Ctx) lfield(loc string, st *types.Struct, i int) string {
	return fmt.Sprintf("(lfield %s %d)", loc, c.fid(st, i))
}

func (c *Ctx) fid(st *types.Struct, i int) int {
	if c.structIDs == nil {
		c.structIDs = map[string]int{}
	}
	key := st.String()
	base, ok := c.structIDs[key]
	if !ok {
		base = (len(c.structIDs) + 1) * 1024
		c.structIDs[key] = base
	}
	return base + i
}

// splitLelem recognises a location term of the syntactic form (lelem B I).
func splitLelem(loc string) (b, i string, ok bool) {
	if !strings.HasPrefix(loc, "(lelem ") || !strings.HasSuffix(loc, ")") {
		return
	}
	body := loc[len("(lelem ") : len(loc)-1]
	// first s-expression is B
	depth := 0
	for k := 0; k < len(body); k++ {
		switch body[k] {
		case '(':
			depth++
		case ')':
			depth--
		case ' ':
			if depth == 0 {
				return body[:k], strings.TrimSpace(body[k+1:]), true
			}
		}
	}
	return
}

func flatLoc(loc string) bool {
	return strings.HasPrefix(loc, "(lfield ") || strings.HasPrefix(loc, "(lroot ") || strings.HasPrefix(loc, "new!") || loc == "lnil"
}

func (c *Ctx) arrKey(t types.Type) string  { return "arr_" + c.memKey(t) }
func (c *Ctx) arrSort(t types.Type) string { return fmt.Sprintf("(Array Loc (Array %s %s))", c.idx(), c.sortOf(t)) }

// readLeaf is the value of scalar type t stored at loc.
func (c *Ctx) readLeaf(mem MemFn, used *[]memUse, loc string, t types.Type) string {
	use := func(k, s string) string {
		if used != nil {
			*used = append(*used, memUse{k, s})
		}
		return mem(k, s)
	}
	if b, i, ok := splitLelem(loc); ok {
		return fmt.Sprintf("(select (select %s %s) %s)", use(c.arrKey(t), c.arrSort(t)), b, i)
	}
	if flatLoc(loc) {
		return fmt.Sprintf("(select %s %s)", use(c.memKey(t), c.memSort(t)), loc)
	}
	return fmt.Sprintf("(ite (is_lelem %s) (select (select %s (ebase %s)) (eidx %s)) (select %s %s))", loc,
		use(c.arrKey(t), c.arrSort(t)), loc, loc, use(c.memKey(t), c.memSort(t)), loc)
}

// constGlobal: package-level error variables proved (syntactically, per run) to be assigned once in
// the package initialiser are distinct non-nil constants.
func (c *Ctx) constGlobal(name string) (string, bool) {
	if c.specs == nil || c.specs.constGlobals == nil || !c.specs.constGlobals[name] {
		return "", false
	}
	n := "gerr_" + sanitize(name)
	if !c.declared[n] {
		c.declared[n] = true
		c.constGlobalsUsed = append(c.constGlobalsUsed, n)
	}
	return n, true
}
