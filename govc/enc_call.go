package main

import (
	"fmt"
	"go/token"
	"go/types"
	"math/big"
	"sort"
	"strconv"
	"strings"

	"golang.org/x/tools/go/ssa"
)

var bigZero = big.NewInt(0)

type arrSlice struct {
	al *ssa.Alloc
	at *types.Array
}

func (e *Encoder) call(in *ssa.Call, st *State, pc string) {
	v := e.callCommon(in, in.Common(), in, st, pc)
	e.vals[in] = v
	// contracts can name the result of the k-th call of a function or method as $<name><k>
	// (tuple results: $<name><k>_<i>) and ask whether that call was reached on the current path.
	cm := in.Common()
	name := ""
	switch {
	case cm.IsInvoke():
		name = cm.Method.Name()
	case cm.StaticCallee() != nil:
		name = cm.StaticCallee().Name()
		if o := cm.StaticCallee().Origin(); o != nil {
			name = o.Name() // an instantiation Clone[[]byte] is named after the generic function, as at sites
		}
	}
	if _, lit := cm.Value.(*ssa.MakeClosure); lit || name == "" {
		// a call through a local variable that holds a function literal: named after the variable (`end := func...;
		// end()` is $end<k>)
		switch v := cm.Value.(type) {
		case *ssa.MakeClosure:
			name = e.localNameOf(v)
		case *ssa.UnOp:
			// the variable is itself captured by another closure and lives in a cell
			if al, ok := v.X.(*ssa.Alloc); ok && v.Op == token.MUL {
				name = al.Comment
			}
		}
	}
	if name != "" {
		e.nameValue("$"+name, v, pc)
	}
}

// localNameOf: the source name of the variable an SSA value is bound to (from go/ssa's debug references).
func (e *Encoder) localNameOf(v ssa.Value) string {
	for _, b := range e.fn.Blocks {
		for _, in := range b.Instrs {
			if dr, ok := in.(*ssa.DebugRef); ok && dr.X == v && !dr.IsAddr {
				if s, ok := dr.Expr.(interface{ String() string }); ok {
					return s.String()
				}
			}
		}
	}
	return ""
}

// nameValue registers v under base<k> (k = ordinal of that base name in encoding order).
func (e *Encoder) nameValue(base string, v Val, pc string) {
	k := e.ordinal("$name " + base)
	n := fmt.Sprintf("%s%d", base, k)
	if e.reachedPC == nil {
		e.reachedPC = map[string]string{}
	}
	if v.Tuple != nil {
		e.reachedPC[n] = pc // reached($name) also works for a call with several results
		for i, t := range v.Tuple {
			e.params[fmt.Sprintf("%s_%d", n, i)] = t
			e.reachedPC[fmt.Sprintf("%s_%d", n, i)] = pc
		}
		return
	}
	e.reachedPC[n] = pc
	if v.S == "" {
		return // no result to name, but reached($name) still works
	}
	e.params[n] = v
}

func (e *Encoder) callCommon(instr ssa.Instruction, cm *ssa.CallCommon, res ssa.Value, st *State, pc string) Val {
	c := e.c
	var resT types.Type = types.NewTuple()
	if res != nil {
		resT = res.Type()
	}
	var args []Val
	for _, a := range cm.Args {
		args = append(args, e.val(a))
	}
	if bi, ok := cm.Value.(*ssa.Builtin); ok {
		// (site assertions on the few builtins with an effect worth pinning: close, delete, panic)
		switch bi.Name() {
		case "close", "delete", "panic", "append":
			if e.fc != nil && len(e.fc.Sites) > 0 {
				bsn := e.siteName("call", bi.Name())
				e.siteAsserts("call "+bi.Name(), bsn, st, pc, args)
			}
		}
		return e.builtin(bi, cm, args, resT, st, pc)
	}
	if cm.IsInvoke() {
		recv := e.val(cm.Value)
		isname := e.siteName("call", cm.Method.Name())
		e.siteAsserts("call "+cm.Method.Name(), isname, st, pc, args)
		if v, ok := e.ifaceCall(cm, recv, args, resT, st, pc, isname); ok {
			return v
		}
		e.havocAll(st, fmt.Sprintf("interface call %s", cm.Method.Name()))
		v := e.freshVal("icall", resT)
		e.assumeWT(v, pc, st)
		return v
	}
	callee := cm.StaticCallee()
	if callee == nil {
		// closure bound locally?
		fv := e.val(cm.Value)
		if mc, ok := e.closures[fv.S]; ok {
			if fn, ok := mc.Fn.(*ssa.Function); ok {
				if fc := e.prog.contractFor(fn); fc != nil {
					var bind []Val
					for _, b := range mc.Bindings {
						bind = append(bind, e.val(b))
					}
					sn := e.siteName("call", fn.Name())
					e.siteAsserts("call "+fn.Name(), sn, st, pc, args)
					return e.applyContract(fc, fn, args, bind, resT, st, pc, sn)
				}
			}
		}
		if e.fc != nil && len(e.fc.Sites) > 0 {
			// a call through a function-typed parameter or local variable: site `call <variable>#k`
			dname := ""
			switch v := cm.Value.(type) {
			case *ssa.Parameter:
				dname = v.Name()
			case *ssa.Phi:
				dname = v.Comment
			case *ssa.UnOp:
				if al, ok := v.X.(*ssa.Alloc); ok && v.Op == token.MUL {
					dname = al.Comment
				}
				// a captured function variable
				if fv, ok := v.X.(*ssa.FreeVar); ok && v.Op == token.MUL {
					dname = fv.Name()
				}
				// a function held in a struct field (x.f(...)): named after the field
				if fa, ok := v.X.(*ssa.FieldAddr); ok && v.Op == token.MUL {
					if pt, ok := fa.X.Type().Underlying().(*types.Pointer); ok {
						if stt, ok := pt.Elem().Underlying().(*types.Struct); ok {
							dname = stt.Field(fa.Field).Name()
						}
					}
				}
			case *ssa.Field:
				if stt, ok := v.X.Type().Underlying().(*types.Struct); ok {
					dname = stt.Field(v.Field).Name()
				}
			}
			if dname != "" {
				dsn := e.siteName("call", dname)
				e.siteAsserts("call "+dname, dsn, st, pc, args)
			}
		}
		e.havocAll(st, "dynamic call "+cm.Value.Name())
		v := e.freshVal("dcall", resT)
		e.assumeWT(v, pc, st)
		// contracts can name the result of the k-th dynamic call as $callk
		e.nameValue("$call", v, pc)
		return v
	}
	cname := callee.Name()
	if o := callee.Origin(); o != nil {
		cname = o.Name() // an instantiation resize[T1] is addressed by the generic function's name
	}
	ssn := e.siteName("call", cname)
	e.curCall = cm
	e.siteAsserts("call "+cname, ssn, st, pc, args)
	e.curCall = nil
	if mc, ok := cm.Value.(*ssa.MakeClosure); ok {
		if fc := e.prog.contractFor(callee); fc != nil {
			var bind []Val
			for _, b := range mc.Bindings {
				bind = append(bind, e.val(b))
			}
			return e.applyContract(fc, callee, args, bind, resT, st, pc, ssn)
		}
	}
	if fc := e.prog.contractFor(callee); fc != nil {
		if e.fc != nil && len(fc.Requires) > 0 && len(fc.Props) > 0 && !sharesProp(fc.Props, e.fc.Props) && !fc.Trusted && !fc.Extern && !e.fc.Synth {
			// a contract written for another property, with preconditions this caller was never meant to
			// establish: it is not used here (no obligation, no assumed postcondition) - the call is a heap havoc
			e.note("call %s: its contract belongs to %s and has preconditions; not used in this function (havoc)", callee.Name(), strings.Join(fc.Props, ","))
		} else if e.fc != nil && e.fc.AsHavoc[cname] {
			// `abstract call <name>`: this function's contract does not rely on that callee's contract and does not
			// establish its preconditions: the call is a heap havoc here
			e.note("call %s: treated as a havoc in this function (abstract call)", callee.Name())
		} else {
			return e.applyContract(fc, callee, args, nil, resT, st, pc, ssn)
		}
	}
	if v, ok := e.stdlibCall(callee, cm, args, resT, st, pc); ok {
		return v
	}
	if emptyBody(callee) {
		return Val{T: resT} // e.g. the generated, empty Default() methods
	}
	e.havocAll(st, "call "+callee.String())
	v := e.freshVal("call", resT)
	e.assumeWT(v, pc, st)
	_ = c
	return v
}

// emptyBody: the callee's built body is a single `return` with no results (no effect at all).
func emptyBody(fn *ssa.Function) bool {
	if len(fn.Blocks) != 1 || fn.Signature.Results().Len() != 0 {
		return false
	}
	for _, in := range fn.Blocks[0].Instrs {
		switch in.(type) {
		case *ssa.Return, *ssa.DebugRef:
		default:
			return false
		}
	}
	return true
}

func (e *Encoder) siteName(kind, what string) string {
	key := kind + " " + what
	return fmt.Sprintf("%s#%d", key, e.ordinal("site "+key))
}

// ordinal numbers the occurrences of a site / named value in SOURCE order (by position), using the
// instruction lists recorded by the first encoding pass; in the first pass (no record yet) it counts in
// encounter order.
func (e *Encoder) ordinal(key string) int {
	e.ordLog[key] = append(e.ordLog[key], e.curInstr)
	if lst, ok := e.ordSeed[key]; ok {
		for i, in := range lst {
			if in == e.curInstr {
				return i
			}
		}
	}
	k := e.siteCounts[key]
	e.siteCounts[key]++
	return k
}

// namedKnown: $name<k> (or $name<k>_<i>) names a value some instruction of this function produces, whether or
// not that instruction has been encoded yet. In the first pass (no record) every $-name counts as known.
func (e *Encoder) namedKnown(name string) bool {
	if e.ordSeed == nil {
		return true
	}
	for key, lst := range e.ordSeed {
		if !strings.HasPrefix(key, "$name ") {
			continue
		}
		base := key[len("$name "):]
		if !strings.HasPrefix(name, base) {
			continue
		}
		rest := name[len(base):]
		if i := strings.IndexByte(rest, '_'); i >= 0 {
			rest = rest[:i]
		}
		if k, err := strconv.Atoi(rest); err == nil && k >= 0 && k < len(lst) {
			return true
		}
	}
	return false
}

// sortedOrdLog returns the recorded instruction lists sorted by source position.
func (e *Encoder) sortedOrdLog() map[string][]ssa.Instruction {
	out := map[string][]ssa.Instruction{}
	for k, lst := range e.ordLog {
		cp := append([]ssa.Instruction(nil), lst...)
		sort.SliceStable(cp, func(i, j int) bool {
			pi, pj := cp[i].Pos(), cp[j].Pos()
			if !pi.IsValid() || !pj.IsValid() {
				return false
			}
			return pi < pj
		})
		out[k] = cp
	}
	return out
}

// applyContract: modular call. Asserts requires, havocs modifies, assumes ensures.
func (e *Encoder) applyContract(fc *FuncContract, callee *ssa.Function, args []Val, bindings []Val, resT types.Type, st *State, pc string, sname string) Val {
	c := e.c
	pre := st.clone()
	env := &Env{c: c, pkg: fnTypesPkg(callee), vars: map[string]Val{}, mem: pre.memFn(c), freshBase: pre.ctr, wt: e.assumeCellWT}
	names := paramNames(callee, fc)
	for i, par := range callee.Params {
		if i >= len(args) {
			break
		}
		env.vars[par.Name()] = args[i]
		if i < len(names) && names[i] != "_" {
			env.vars[names[i]] = args[i]
		}
	}
	for i, a := range args { // (functions of dependencies have no built Params: bind by position)
		if i < len(names) && names[i] != "_" && names[i] != "" {
			env.vars[names[i]] = a
		}
	}
	for i, fv := range callee.FreeVars {
		if i < len(bindings) {
			env.vars[fv.Name()] = bindings[i]
		}
	}
	env.old = env
	for _, g := range fc.Ghosts {
		v, err := env.Elab(g.Init)
		if err != nil {
			e.errs = append(e.errs, fmt.Sprintf("call %s ghost %s: %v", callee.Name(), g.Name, err))
			continue
		}
		if t := env.resolveType(g.Type); t != nil && v.T == nil {
			v = env.coerce(v, t)
		}
		env.vars[g.Name] = v
	}
	for _, r := range fc.Requires {
		s, err := env.ElabBool(r.E)
		if err != nil {
			e.errs = append(e.errs, fmt.Sprintf("pre@%s %q: %v", sname, r.Text, err))
			s = "false"
		}
		e.addObl("pre@"+sname, fmt.Sprintf("%s requires %s", callee.Name(), r.Text), pc, s)
	}
	// effects
	switch {
	case fc.Pure:
	case fc.HasMod && len(fc.Modifies) == 0:
		// writes nothing that existed, but may allocate (a constructor): objects it returns can be fresh
		e.bumpCtr(st)
	case fc.HasMod:
		ok := true
		for i, m := range fc.Modifies {
			if err := e.havocMod(env, m, st); err != nil {
				e.note("call %s: modifies %q not expressible (%v): heap havoc", callee.Name(), fc.ModText[i], err)
				ok = false
				break
			}
		}
		if !ok {
			e.havocAll(st, "call "+callee.Name()+" (modifies not expressible)")
		} else {
			e.bumpCtr(st)
		}
	default:
		e.havocAll(st, "call "+callee.Name()+" (contract without modifies)")
	}
	result := e.freshVal("r_"+sanitize(callee.Name()), resT)
	e.assumeWT(result, pc, st)
	post := &Env{c: c, pkg: fnTypesPkg(callee), vars: map[string]Val{}, mem: st.memFn(c), old: env, freshBase: pre.ctr, wt: e.assumeCellWT}
	for k, v := range env.vars {
		post.vars[k] = v
	}
	if result.Tuple != nil {
		for i, r := range result.Tuple {
			if i < len(fc.ResultNames) && fc.ResultNames[i] != "_" {
				post.vars[fc.ResultNames[i]] = r
			}
		}
	} else if len(fc.ResultNames) == 1 && fc.ResultNames[0] != "_" {
		post.vars[fc.ResultNames[0]] = result
	}
	for _, en := range fc.Ensures {
		s, err := post.ElabBool(en.E)
		if err != nil {
			e.note("call %s: ensures %q not usable here: %v", callee.Name(), en.Text, err)
			continue
		}
		c.assume(implies(pc, s))
	}
	if (fc.Trusted || fc.Extern) && len(fc.Ensures) > 0 && e.primary {
		// vacuity guard: what a trusted contract lets us assume must not contradict what is already known
		o := e.addObl("cover-call "+sname, "the assumed postconditions of trusted "+callee.Name()+" are consistent with the calling context", pc, "false")
		o.IsCover = true
	}
	e.usedContracts[fc.Key] = true
	return result
}

// havocMod havocs the location(s) named by a modifies expression.
func (e *Encoder) havocMod(env *Env, m Expr, st *State) (err error) {
	defer func() {
		if r := recover(); r != nil {
			if ee, ok := r.(elabErr); ok {
				err = ee
				return
			}
			panic(r)
		}
	}()
	if call, ok := m.(*ECall); ok {
		if id, ok := call.Fun.(*EIdent); ok && id.Name == "elems" {
			v := env.elab(call.Args[0])
			elem := v.T.Underlying().(*types.Slice).Elem()
			return e.havocElems(st, v, elem)
		}
		if id, ok := call.Fun.(*EIdent); ok && id.Name == "object" {
			// object(p): every cell of the object p points into (p a pointer or an interface holding one)
			root, err := e.objectRoot(env, call.Args[0])
			if err != nil {
				return err
			}
			e.havocObject(st, root)
			return nil
		}
	}
	loc, t, ok := env.addr(m)
	if !ok {
		return fmt.Errorf("not addressable")
	}
	e.havocLoc(st, loc, t)
	return nil
}

func (e *Encoder) objectRoot(env *Env, x Expr) (string, error) {
	v := env.elab(x)
	switch v.T.Underlying().(type) {
	case *types.Pointer:
		return fmt.Sprintf("(rootof %s)", v.S), nil
	case *types.Interface:
		e.c.declareFun("unbox_Loc", []string{"Iface"}, "Loc")
		return fmt.Sprintf("(rootof (unbox_Loc %s))", v.S), nil
	case *types.Slice:
		return fmt.Sprintf("(rootof (sbase %s))", v.S), nil
	}
	return "", fmt.Errorf("object() needs a pointer, slice or interface")
}

// havocObject replaces every known memory map by a fresh one that agrees with it outside the object.
func (e *Encoder) havocObject(st *State, root string) {
	c := e.c
	var keys []string
	for k := range c.memSorts {
		keys = append(keys, k)
	}
	sortStrings(keys)
	for _, k := range keys {
		srt := c.memSorts[k]
		if strings.HasPrefix(k, "mapdom_") || strings.HasPrefix(k, "mapval_") {
			continue // maps are separate objects
		}
		cur := st.get(c, k, srt)
		n := c.fresh("M_" + k)
		c.declare(n, srt)
		c.assume(fmt.Sprintf("(forall ((p!o Loc)) (! (=> (not (= (rootof p!o) %s)) (= (select %s p!o) (select %s p!o))) :pattern ((select %s p!o))))", root, n, cur, n))
		st.mem[k] = n
	}
	// memory maps not used so far are simply unknown from here on
	st.epoch = c.fresh("e")
	e.bumpCtr(st)
}

func (e *Encoder) havocLoc(st *State, loc string, t types.Type) {
	v := e.freshVal("hv", t)
	if w := e.wellTyped(v, ""); w != "true" {
		e.c.assume(w)
	}
	e.store(st, loc, t, v.S)
}

// havocRange havocs elements [0,cap) of slice s (all leaf memory keys of its element type).
func (e *Encoder) havocRange(st *State, s Val, elem types.Type) error {
	c := e.c
	intT := types.Typ[types.Int]
	if sls, ok := structLeaves(c, elem); ok {
		// struct elements without arrays: the cells that change are exactly the leaf fields of the elements in
		// range, lfield(..lfield(lelem(base, i), f1).., fk); no recursion on the location is needed, and a cell
		// with any other field id (a field of another struct type) is unchanged wherever it lives
		byKey := map[string][]structLeaf{}
		var keys []string
		for _, l := range sls {
			k := c.memKey(l.t)
			if _, seen := byKey[k]; !seen {
				keys = append(keys, k)
			}
			byKey[k] = append(byKey[k], l)
		}
		off := fmt.Sprintf("(soff %s)", s.S)
		for _, key := range keys {
			srt := c.memSort(byKey[key][0].t)
			cur := st.get(c, key, srt)
			n := c.fresh("M_" + key)
			c.declare(n, srt)
			var alts []string
			for _, l := range byKey[key] {
				// p = lfield(...lfield(lelem(base,i), path[0])..., path[k-1])
				var conds []string
				q := "p!h"
				for k := len(l.path) - 1; k >= 0; k-- {
					conds = append(conds, fmt.Sprintf("((_ is lfield) %s)", q), fmt.Sprintf("(= (fid %s) %d)", q, l.path[k]))
					q = fmt.Sprintf("(fbase %s)", q)
				}
				conds = append(conds, fmt.Sprintf("(is_lelem %s)", q), fmt.Sprintf("(= (ebase %s) (sbase %s))", q, s.S),
					c.cmp("<=", intT, off, fmt.Sprintf("(eidx %s)", q)), c.cmp("<", intT, fmt.Sprintf("(eidx %s)", q), c.binopIdx("+", off, fmt.Sprintf("(scap %s)", s.S))))
				alts = append(alts, and(conds...))
			}
			if e.fc != nil && e.fc.LambdaFrame {
				// the new memory as an array lambda: reads beta-reduce, no quantifier instantiation is involved
				// (z3 only; cvc5 does not accept array lambdas)
				// (a declared constant with a defining equation, so that patterns mentioning it stay legal)
				n2 := c.fresh("M_" + key)
				c.declare(n2, srt)
				c.assume(fmt.Sprintf("(= %s (lambda ((p!h Loc)) (ite %s (select %s p!h) (select %s p!h))))", n2, or(alts...), n, cur))
				st.mem[key] = n2
				continue
			}
			c.assume(fmt.Sprintf("(forall ((p!h Loc)) (! (=> (not %s) (= (select %s p!h) (select %s p!h))) :pattern ((select %s p!h))))", or(alts...), n, cur, n))
			st.mem[key] = n
		}
		return nil
	}
	var leaves []types.Type
	var walk func(t types.Type)
	walk = func(t types.Type) {
		switch u := t.Underlying().(type) {
		case *types.Struct:
			for i := 0; i < u.NumFields(); i++ {
				walk(u.Field(i).Type())
			}
		case *types.Array:
			walk(u.Elem())
		default:
			leaves = append(leaves, t)
		}
	}
	walk(elem)
	seen := map[string]bool{}
	for _, t := range leaves {
		key, srt := c.memKey(t), c.memSort(t)
		if seen[key] {
			continue
		}
		seen[key] = true
		cur := st.get(c, key, srt)
		n := c.fresh("M_" + key)
		c.declare(n, srt)
		// frame: every location whose element-root is not inside the slice range is unchanged
		c.declareElemRoot()
		off := fmt.Sprintf("(soff %s)", s.S)
		inr := fmt.Sprintf("(and (is_lelem (elemroot p!h)) (= (ebase (elemroot p!h)) (sbase %s)) %s %s)", s.S,
			c.cmp("<=", intT, off, "(eidx (elemroot p!h))"), c.cmp("<", intT, "(eidx (elemroot p!h))", c.binopIdx("+", off, fmt.Sprintf("(scap %s)", s.S))))
		c.assume(fmt.Sprintf("(forall ((p!h Loc)) (! (=> (not %s) (= (select %s p!h) (select %s p!h))) :pattern ((select %s p!h))))", inr, n, cur, n))
		st.mem[key] = n
	}
	return nil
}

// elemroot(l): the outermost lelem ancestor of l (l itself when it is an lelem with non-elem base chain).
func (c *Ctx) declareElemRoot() {
	if c.declared["elemroot"] {
		return
	}
	c.declared["elemroot"] = true
	c.sortDecl = append(c.sortDecl, "(define-fun-rec elemroot ((l Loc)) Loc (ite ((_ is lfield) l) (elemroot (fbase l)) l))")
}

func (e *Encoder) builtin(bi *ssa.Builtin, cm *ssa.CallCommon, args []Val, resT types.Type, st *State, pc string) Val {
	c := e.c
	intT := types.Typ[types.Int]
	switch bi.Name() {
	case "len", "cap":
		x := args[0]
		switch u := x.T.Underlying().(type) {
		case *types.Slice:
			if bi.Name() == "len" {
				return Val{T: intT, S: fmt.Sprintf("(slen %s)", x.S)}
			}
			return Val{T: intT, S: fmt.Sprintf("(scap %s)", x.S)}
		case *types.Basic:
			return Val{T: intT, S: fmt.Sprintf("(str_len %s)", x.S)}
		case *types.Map:
			env := e.envFor(st)
			dom := env.mapState(x, u)
			card := fmt.Sprintf("(%s %s)", env.mapLenFn(u), dom)
			c.assume(c.cmp(">=", intT, card, c.idxLit(0)))
			// an empty map has no keys (cardinality is otherwise uninterpreted)
			c.assume(fmt.Sprintf("(=> (= %s %s) (= %s ((as const (Array %s Bool)) false)))", card, c.idxLit(0), dom, c.sortOf(u.Key())))
			return Val{T: intT, S: fmt.Sprintf("(ite (= %s map_nil) %s %s)", x.S, c.idxLit(0), card)}
		case *types.Pointer:
			if at, ok := u.Elem().Underlying().(*types.Array); ok {
				return Val{T: intT, S: c.idxLit(at.Len())}
			}
		case *types.Array:
			return Val{T: intT, S: c.idxLit(u.Len())}
		}
		v := e.freshVal("len", intT)
		c.assume(c.cmp(">=", intT, v.S, c.idxLit(0)))
		return v
	case "min", "max":
		r := args[0]
		for _, a := range args[1:] {
			op := "<="
			if bi.Name() == "max" {
				op = ">="
			}
			if !isInt(r.T) {
				e.havoc("min/max on non-int")
				return e.freshVal("mm", resT)
			}
			r = Val{T: r.T, S: fmt.Sprintf("(ite %s %s %s)", c.cmp(op, r.T, r.S, a.S), r.S, a.S)}
		}
		return r
	case "append":
		return e.appendArr(cm, args, st, pc)
	case "copy":
		return e.copyArr(cm, args, st, pc)
	case "print", "println":
		return Val{T: resT}
	case "ssa:wrapnilchk":
		return args[0]
	case "delete":
		mt := args[0].T.Underlying().(*types.Map)
		e.mapDelete(args[0], mt, args[1], st, pc)
		return Val{T: resT}
	}
	e.havocAll(st, "builtin "+bi.Name())
	v := e.freshVal("bi", resT)
	e.assumeWT(v, pc, st)
	return v
}

func (e *Encoder) appendBuiltin(cm *ssa.CallCommon, args []Val, st *State, pc string) Val {
	c := e.c
	intT := types.Typ[types.Int]
	s := args[0]
	sl := s.T.Underlying().(*types.Slice)
	elem := sl.Elem()
	if len(args) == 1 {
		return s
	}
	t := args[1]
	switch elem.Underlying().(type) {
	case *types.Struct, *types.Array:
		// aggregate elements: result shape only
		e.havocAll(st, "append of aggregate elements (contents not tracked)")
		r := e.freshVal("app", s.T)
		e.assumeWT(r, pc, st)
		tl := fmt.Sprintf("(slen %s)", t.S)
		c.assume(implies(pc, fmt.Sprintf("(= (slen %s) %s)", r.S, c.binopIdx("+", fmt.Sprintf("(slen %s)", s.S), tl))))
		return r
	}
	key, srt := c.memKey(elem), c.memSort(elem)
	M := st.get(c, key, srt)
	slen, scap, soff, sbase := fmt.Sprintf("(slen %s)", s.S), fmt.Sprintf("(scap %s)", s.S), fmt.Sprintf("(soff %s)", s.S), fmt.Sprintf("(sbase %s)", s.S)
	newloc := e.alloc(st)
	newcap := c.fresh("cap")
	c.declare(newcap, c.idx())
	zero := c.idxLit(0)
	if as, ok := e.arrSlices[t.S]; ok {
		N := as.at.Len()
		arrLoc := e.val(as.al).S
		var vs []string
		for i := int64(0); i < N; i++ {
			vs = append(vs, c.define("av", c.sortOf(elem), fmt.Sprintf("(select %s (lelem %s %s))", M, arrLoc, c.idxLit(i))))
		}
		n := c.define("n", c.idx(), c.binopIdx("+", slen, c.idxLit(N)))
		inplace := c.define("inplace", "Bool", c.cmp("<=", intT, n, scap))
		min := M
		for i := int64(0); i < N; i++ {
			min = fmt.Sprintf("(store %s (lelem %s %s) %s)", min, sbase, c.binopIdx("+", c.binopIdx("+", soff, slen), c.idxLit(i)), vs[i])
		}
		// realloc facts on fresh locations
		c.assume(implies(and(pc, not(inplace)), fmt.Sprintf("(forall ((i!a %s)) (! (=> %s (= (select %s (lelem %s i!a)) (select %s (lelem %s %s)))) :pattern ((select %s (lelem %s i!a)))))",
			c.idx(), and(c.cmp("<=", intT, zero, "i!a"), c.cmp("<", intT, "i!a", slen)), M, newloc, M, sbase, c.binopIdx("+", soff, "i!a"), M, newloc)))
		for i := int64(0); i < N; i++ {
			c.assume(implies(and(pc, not(inplace)), fmt.Sprintf("(= (select %s (lelem %s %s)) %s)", M, newloc, c.binopIdx("+", slen, c.idxLit(i)), vs[i])))
		}
		c.assume(implies(pc, and(c.cmp("<=", intT, n, newcap))))
		if c.mode == ModeBV {
			c.assume(implies(pc, c.cmp("<", intT, newcap, "(_ bv4611686018427387904 64)")))
		}
		res := c.define("app", "Slice", fmt.Sprintf("(ite %s (mkslice %s %s %s %s) (mkslice %s %s %s %s))", inplace, sbase, soff, n, scap, newloc, zero, n, newcap))
		st.mem[key] = c.define("M_"+key, srt, fmt.Sprintf("(ite %s %s %s)", inplace, min, M))
		return Val{T: s.T, S: res}
	}
	// general case
	var tlen string
	var tat func(j string) string
	if isString(t.T) {
		tlen = fmt.Sprintf("(str_len %s)", t.S)
		tat = func(j string) string { return fmt.Sprintf("(str_at %s %s)", t.S, j) }
	} else {
		tlen = fmt.Sprintf("(slen %s)", t.S)
		tat = func(j string) string {
			return fmt.Sprintf("(select %s (lelem (sbase %s) %s))", M, t.S, c.binopIdx("+", fmt.Sprintf("(soff %s)", t.S), j))
		}
	}
	n := c.define("n", c.idx(), c.binopIdx("+", slen, tlen))
	inplace := c.define("inplace", "Bool", c.cmp("<=", intT, n, scap))
	M2 := c.fresh("M_" + key)
	c.declare(M2, srt)
	start := c.define("start", c.idx(), c.binopIdx("+", soff, slen))
	inr := and(fmt.Sprintf("(is_lelem p!a)"), fmt.Sprintf("(= (ebase p!a) %s)", sbase), c.cmp("<=", intT, start, "(eidx p!a)"), c.cmp("<", intT, "(eidx p!a)", c.binopIdx("+", start, tlen)))
	c.assume(implies(and(pc, inplace), fmt.Sprintf("(forall ((p!a Loc)) (! (= (select %s p!a) (ite %s %s (select %s p!a))) :pattern ((select %s p!a))))",
		M2, inr, tat(c.binopIdx("-", "(eidx p!a)", start)), M, M2)))
	c.assume(implies(and(pc, not(inplace)), fmt.Sprintf("(= %s %s)", M2, M)))
	c.assume(implies(and(pc, not(inplace)), fmt.Sprintf("(forall ((i!a %s)) (! (=> %s (= (select %s (lelem %s i!a)) (select %s (lelem %s %s)))) :pattern ((select %s (lelem %s i!a)))))",
		c.idx(), and(c.cmp("<=", intT, zero, "i!a"), c.cmp("<", intT, "i!a", slen)), M, newloc, M, sbase, c.binopIdx("+", soff, "i!a"), M, newloc)))
	c.assume(implies(and(pc, not(inplace)), fmt.Sprintf("(forall ((j!a %s)) (=> %s (= (select %s (lelem %s %s)) %s)))",
		c.idx(), and(c.cmp("<=", intT, zero, "j!a"), c.cmp("<", intT, "j!a", tlen)), M, newloc, c.binopIdx("+", slen, "j!a"), tat("j!a"))))
	c.assume(implies(pc, c.cmp("<=", intT, n, newcap)))
	if c.mode == ModeBV {
		c.assume(implies(pc, c.cmp("<", intT, newcap, "(_ bv4611686018427387904 64)")))
	}
	res := c.define("app", "Slice", fmt.Sprintf("(ite %s (mkslice %s %s %s %s) (mkslice %s %s %s %s))", inplace, sbase, soff, n, scap, newloc, zero, n, newcap))
	st.mem[key] = M2
	return Val{T: s.T, S: res}
}

func (e *Encoder) copyBuiltin(cm *ssa.CallCommon, args []Val, st *State, pc string) Val {
	c := e.c
	intT := types.Typ[types.Int]
	d, s := args[0], args[1]
	elem := d.T.Underlying().(*types.Slice).Elem()
	switch elem.Underlying().(type) {
	case *types.Struct, *types.Array:
		e.havocAll(st, "copy of aggregate elements")
		v := e.freshVal("copy", intT)
		e.assumeWT(v, pc, st)
		return v
	}
	key, srt := c.memKey(elem), c.memSort(elem)
	M := st.get(c, key, srt)
	dlen := fmt.Sprintf("(slen %s)", d.S)
	var sl string
	var sat func(j string) string
	if isString(s.T) {
		sl = fmt.Sprintf("(str_len %s)", s.S)
		sat = func(j string) string { return fmt.Sprintf("(str_at %s %s)", s.S, j) }
	} else {
		sl = fmt.Sprintf("(slen %s)", s.S)
		sat = func(j string) string {
			return fmt.Sprintf("(select %s (lelem (sbase %s) %s))", M, s.S, c.binopIdx("+", fmt.Sprintf("(soff %s)", s.S), j))
		}
	}
	n := c.define("ncopy", c.idx(), fmt.Sprintf("(ite %s %s %s)", c.cmp("<=", intT, dlen, sl), dlen, sl))
	M2 := c.fresh("M_" + key)
	c.declare(M2, srt)
	doff := fmt.Sprintf("(soff %s)", d.S)
	inr := and("(is_lelem p!c)", fmt.Sprintf("(= (ebase p!c) (sbase %s))", d.S), c.cmp("<=", intT, doff, "(eidx p!c)"), c.cmp("<", intT, "(eidx p!c)", c.binopIdx("+", doff, n)))
	c.assume(implies(pc, fmt.Sprintf("(forall ((p!c Loc)) (! (= (select %s p!c) (ite %s %s (select %s p!c))) :pattern ((select %s p!c))))",
		M2, inr, sat(c.binopIdx("-", "(eidx p!c)", doff)), M, M2)))
	st.mem[key] = M2
	return Val{T: intT, S: n}
}

func (e *Encoder) unboxFn(t types.Type) string {
	c := e.c
	srt := c.sortOf(t)
	if strings.Contains(srt, "?") {
		return ""
	}
	n := "unbox_" + sanitize(srt)
	c.declareFun(n, []string{"Iface"}, srt)
	return n
}

func (e *Encoder) ifaceCall(cm *ssa.CallCommon, recv Val, args []Val, resT types.Type, st *State, pc string, sname string) (Val, bool) {
	// error.Error(), fmt.Stringer: pure
	if cm.Method.Name() == "Error" && cm.Method.Type().(*types.Signature).Params().Len() == 0 {
		v := e.freshVal("errstr", resT)
		e.assumeWT(v, pc, st)
		return v, true
	}
	if fc := e.prog.ifaceContract(cm.Method); fc != nil {
		// treat like a static call with the interface method contract
		return e.applyIfaceContract(fc, cm, recv, args, resT, st, pc, sname), true
	}
	return Val{}, false
}

func (e *Encoder) applyIfaceContract(fc *FuncContract, cm *ssa.CallCommon, recv Val, args []Val, resT types.Type, st *State, pc string, sname string) Val {
	c := e.c
	pre := st.clone()
	env := &Env{c: c, pkg: e.pkg, vars: map[string]Val{}, mem: pre.memFn(c), freshBase: pre.ctr, wt: e.assumeCellWT}
	if fc.Decl.Recv != nil && len(fc.Decl.Recv.List[0].Names) > 0 {
		env.vars[fc.Decl.Recv.List[0].Names[0].Name] = recv
	}
	for i, n := range fc.ParamNames {
		if i < len(args) && n != "_" {
			env.vars[n] = args[i]
		}
	}
	env.old = env
	for _, r := range fc.Requires {
		s, err := env.ElabBool(r.E)
		if err != nil {
			s = "false"
			e.errs = append(e.errs, fmt.Sprintf("pre@%s %q: %v", sname, r.Text, err))
		}
		e.addObl("pre@"+sname, r.Text, pc, s)
	}
	switch {
	case fc.Pure:
	case fc.HasMod && len(fc.Modifies) == 0:
		// writes nothing that existed, but may allocate (a constructor): objects it returns can be fresh
		e.bumpCtr(st)
	case fc.HasMod:
		for i, m := range fc.Modifies {
			if err := e.havocMod(env, m, st); err != nil {
				e.note("interface call %s: modifies %q not expressible (%v): heap havoc", cm.Method.Name(), fc.ModText[i], err)
				e.havocAll(st, "interface call "+cm.Method.Name())
				break
			}
		}
	default:
		e.havocAll(st, "interface call "+cm.Method.Name())
	}
	result := e.freshVal("r_"+sanitize(cm.Method.Name()), resT)
	e.assumeWT(result, pc, st)
	if fc.Pure {
		// functional: result determined by receiver and args
		if result.Tuple == nil && resT != nil {
			fn := "ipure_" + sanitize(fc.Key)
			var as, ss []string
			as = append(as, recv.S)
			ss = append(ss, "Iface")
			for _, a := range args {
				as = append(as, a.S)
				ss = append(ss, c.sortOf(a.T))
			}
			c.declareFun(fn, ss, c.sortOf(resT))
			c.assume(implies(pc, fmt.Sprintf("(= %s (%s %s))", result.S, fn, strings.Join(as, " "))))
		}
	}
	post := env.child()
	post.mem = st.memFn(c)
	post.old = env
	if result.Tuple != nil {
		for i, r := range result.Tuple {
			if i < len(fc.ResultNames) && fc.ResultNames[i] != "_" {
				post.vars[fc.ResultNames[i]] = r
			}
		}
	} else if len(fc.ResultNames) == 1 {
		post.vars[fc.ResultNames[0]] = result
	}
	for _, en := range fc.Ensures {
		s, err := post.ElabBool(en.E)
		if err != nil {
			e.note("iface %s ensures %q unusable: %v", fc.Key, en.Text, err)
			continue
		}
		c.assume(implies(pc, s))
	}
	e.usedContracts["iface "+fc.Key] = true
	return result
}
