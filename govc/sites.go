package main

// Site assertions: Hoare assertions at named program points inside a function.

import (
	"fmt"
	"go/types"
	"strings"

	"golang.org/x/tools/go/ssa"
)

func (e *Encoder) sitesFor(selector string) []SiteSpec {
	if e.fc == nil {
		return nil
	}
	var out []SiteSpec
	for _, s := range e.fc.Sites {
		if s.Selector == selector {
			out = append(out, s)
			e.siteHit[selector] = true
		}
		// `kind what#*`: every site of that kind in the function (a table written out as a literal)
		if strings.HasSuffix(s.Selector, "#*") && strings.HasPrefix(selector, strings.TrimSuffix(s.Selector, "*")) {
			out = append(out, s)
			e.siteHit[s.Selector] = true
		}
	}
	return out
}

func (e *Encoder) runSites(selector string, st *State, pc string, extra map[string]Val) {
	specs := e.sitesFor(selector)
	if len(specs) == 0 {
		return
	}
	env := e.envAt(st, e.curBlk, nil)
	for k, v := range extra {
		env.vars[k] = v
	}
	// at a Lock/Unlock of a monitored mutex the monitor's counters are visible even when this function does not
	// hold the lock by dominance (a lock handed over from another goroutine)
	if e.curCall != nil && len(e.curCall.Args) > 0 {
		if fa, ok := e.curCall.Args[0].(*ssa.FieldAddr); ok {
			if mr := e.prog.monitorOfField(fa, false); e.monitorActive(mr) {
				for i, n := range mr.m.Counters {
					if _, taken := env.vars[n]; !taken {
						env.vars[n] = Val{T: types.Typ[types.Uint64], S: e.ctrTotal(st, e.val(fa.X), i)}
					}
				}
			}
		}
	}
	// the ghost counters of the monitors held at this point are visible by name
	for _, h := range e.held {
		for i, n := range h.mr.m.Counters {
			if _, taken := env.vars[n]; !taken {
				env.vars[n] = Val{T: types.Typ[types.Uint64], S: e.ctrTotal(st, h.recv, i)}
			}
		}
	}
	for _, s := range specs {
		if s.Kind == "ghost" {
			e.ghostAction(s.C.Text, st, pc)
			continue
		}
		f, err := env.ElabBool(s.C.E)
		if err != nil {
			e.errs = append(e.errs, fmt.Sprintf("site %s %q: %v", selector, s.C.Text, err))
			continue
		}
		if s.Kind == "assume" {
			e.c.assume(implies(pc, f))
		} else {
			kind := "site " + selector
			if s.C.Tag != "" {
				kind += " " + s.C.Tag
			}
			e.addObl(kind, s.C.Text, pc, f)
		}
	}
}

func (e *Encoder) siteAsserts(what, sname string, st *State, pc string, args []Val) {
	extra := map[string]Val{}
	for i, a := range args {
		extra[fmt.Sprintf("arg%d", i)] = a
	}
	e.runSites(sname, st, pc, extra)
}

func (e *Encoder) siteStore(in *ssa.Store, st *State, pc string, prev *Val) {
	// store <field>#k for stores through a FieldAddr
	if al, ok := in.Addr.(*ssa.Alloc); ok && al.Comment != "" && al.Heap {
		// store <var>#k for assignments to a captured / escaping local variable
		sname := e.siteName("store", al.Comment)
		e.runSites(sname, st, pc, map[string]Val{"val": e.val(in.Val)})
		return
	}
	fa, ok := in.Addr.(*ssa.FieldAddr)
	if !ok {
		return
	}
	pt, ok := fa.X.Type().Underlying().(*types.Pointer)
	if !ok {
		return
	}
	stt, ok := pt.Elem().Underlying().(*types.Struct)
	if !ok {
		return
	}
	name := stt.Field(fa.Field).Name()
	sname := e.siteName("store", name)
	extra := map[string]Val{"val": e.val(in.Val), "recv": e.val(fa.X)}
	if prev != nil {
		extra["prev"] = *prev
	}
	e.runSites(sname, st, pc, extra)
}

func (e *Encoder) siteMapUpdate(in *ssa.MapUpdate, st *State, pc string) {
	// selector: mapupdate <value type name>#k, k counting updates of maps with that value type
	what := "value"
	if mt, ok := in.Map.Type().Underlying().(*types.Map); ok {
		if nt, ok := mt.Elem().(*types.Named); ok {
			what = nt.Obj().Name()
		} else {
			what = mt.Elem().String()
		}
	}
	sname := e.siteName("mapupdate", what)
	extra := map[string]Val{"key": e.val(in.Key), "mapkey": e.val(in.Key), "val": e.val(in.Value), "map": e.val(in.Map)}
	if e.mapPrev != nil {
		extra["prev"], extra["had"] = *e.mapPrev, *e.mapHad // the entry's value / presence BEFORE the update
	}
	e.runSites(sname, st, pc, extra)
}

// lockEvent / atomicEvent are hooks for the monitor and atomic-transition disciplines.
func (e *Encoder) lockEvent(name string, cm *ssa.CallCommon, args []Val, st *State, pc string) {
	if e.monitor != nil {
		e.monitor.lockEvent(e, name, cm, args, st, pc)
	}
}

func (e *Encoder) atomicEvent(name string, cm *ssa.CallCommon, loc string, ft types.Type, args []Val, st *State, pc string) {
	if e.monitor != nil {
		e.monitor.atomicEvent(e, name, cm, loc, ft, args, st, pc)
	}
}

type monitorHooks interface {
	lockEvent(e *Encoder, name string, cm *ssa.CallCommon, args []Val, st *State, pc string)
	atomicEvent(e *Encoder, name string, cm *ssa.CallCommon, loc string, ft types.Type, args []Val, st *State, pc string)
}

// fnTypesPkg: the types.Package of a function (instantiations of generic functions have no ssa package).
func fnTypesPkg(fn *ssa.Function) *types.Package {
	if fn.Pkg != nil {
		return fn.Pkg.Pkg
	}
	if o := fn.Origin(); o != nil && o.Pkg != nil {
		return o.Pkg.Pkg
	}
	if fn.Object() != nil {
		return fn.Object().Pkg()
	}
	return nil
}
