package main

// Turning a solver model into an in-package Go test that calls the real function.

import (
	"fmt"
	"go/types"
	"math/big"
	"strings"

	"golang.org/x/tools/go/ssa"
)

func parseSMTInt(s string) (*big.Int, bool) {
	s = strings.TrimSpace(s)
	switch {
	case strings.HasPrefix(s, "#x"):
		v, ok := new(big.Int).SetString(s[2:], 16)
		return v, ok
	case strings.HasPrefix(s, "#b"):
		v, ok := new(big.Int).SetString(s[2:], 2)
		return v, ok
	case strings.HasPrefix(s, "(- ") && strings.HasSuffix(s, ")"):
		v, ok := parseSMTInt(s[3 : len(s)-1])
		if !ok {
			return nil, false
		}
		return v.Neg(v), true
	case strings.HasPrefix(s, "(_ bv"):
		f := strings.Fields(s[5:])
		v, ok := new(big.Int).SetString(f[0], 10)
		return v, ok
	}
	v, ok := new(big.Int).SetString(s, 10)
	return v, ok
}

type litCtx struct {
	c     *Ctx
	model map[string]string
	pkg   *types.Package
	notes []string
	imports map[string]string
}

func (l *litCtx) get(term string) (string, bool) {
	v, ok := l.model[term]
	return v, ok
}

func (l *litCtx) intOf(term string, t types.Type) (*big.Int, bool) {
	s, ok := l.get(term)
	if !ok {
		return nil, false
	}
	v, ok := parseSMTInt(s)
	if !ok {
		return nil, false
	}
	w, signed, _ := intInfo(t)
	if w > 0 && signed && l.c.mode == ModeBV && v.Cmp(pow2(w-1)) >= 0 {
		v = new(big.Int).Sub(v, pow2(w))
	}
	return v, true
}

func (l *litCtx) typeName(t types.Type) string {
	return types.TypeString(t, func(p *types.Package) string {
		if p == l.pkg {
			return ""
		}
		if l.imports == nil {
			l.imports = map[string]string{}
		}
		l.imports[p.Path()] = p.Name()
		return p.Name()
	})
}

// lit renders the Go literal for the value denoted by term (of type t) in the entry state.
func (l *litCtx) lit(term string, t types.Type, depth int) (string, bool) {
	c := l.c
	if depth > 3 {
		return "", false
	}
	switch u := t.Underlying().(type) {
	case *types.Basic:
		switch {
		case isInt(u):
			v, ok := l.intOf(term, t)
			if !ok {
				return "", false
			}
			return fmt.Sprintf("%s(%s)", l.typeName(t), v.String()), true
		case isBool(u):
			s, ok := l.get(term)
			if !ok {
				return "", false
			}
			return s, true
		case isString(u):
			n, ok := l.intOf(fmt.Sprintf("(str_len %s)", term), types.Typ[types.Int])
			if !ok || n.Sign() < 0 || n.Cmp(big.NewInt(1<<16)) > 0 {
				return "", false
			}
			var bs []string
			for i := 0; i < int(n.Int64()); i++ {
				b := big.NewInt(0)
				if i < modelElems {
					if v, ok := l.intOf(fmt.Sprintf("(str_at %s %s)", term, c.idxLit(int64(i))), types.Typ[types.Uint8]); ok {
						b = v
					}
				}
				bs = append(bs, b.String())
			}
			return fmt.Sprintf("string([]byte{%s})", strings.Join(bs, ", ")), true
		}
	case *types.Slice:
		isnil, _ := l.get(fmt.Sprintf("(= (sbase %s) lnil)", term))
		if isnil == "true" {
			return fmt.Sprintf("%s(nil)", l.typeName(t)), true
		}
		n, ok := l.intOf(fmt.Sprintf("(slen %s)", term), types.Typ[types.Int])
		if !ok || n.Sign() < 0 {
			return "", false
		}
		if n.Cmp(big.NewInt(1<<16)) > 0 {
			l.notes = append(l.notes, fmt.Sprintf("slice of length %s too large to materialise", n))
			return "", false
		}
		k, _ := l.intOf(fmt.Sprintf("(scap %s)", term), types.Typ[types.Int])
		extra := int64(0)
		if k != nil {
			d := new(big.Int).Sub(k, n)
			if d.Sign() > 0 {
				extra = 64
				if d.Cmp(big.NewInt(64)) < 0 {
					extra = d.Int64()
				}
			}
		}
		eb, ok := u.Elem().Underlying().(*types.Basic)
		if !ok || !(isInt(eb) || isBool(eb)) {
			if n.Sign() > 0 {
				l.notes = append(l.notes, "elements of "+l.typeName(t)+" are zero values (not taken from the model)")
			}
			return fmt.Sprintf("make(%s, %d, %d)", l.typeName(t), n.Int64(), n.Int64()+extra), true
		}
		mem := fmt.Sprintf("M_%s_0", c.arrKey(u.Elem()))
		var es []string
		for i := 0; i < int(n.Int64()); i++ {
			e := "0"
			if isBool(eb) {
				e = "false"
			}
			if i < modelElems {
				tm := fmt.Sprintf("(select (select %s (sbase %s)) %s)", mem, term, c.binopIdx("+", fmt.Sprintf("(soff %s)", term), c.idxLit(int64(i))))
				if isBool(eb) {
					if s, ok := l.get(tm); ok {
						e = s
					}
				} else if v, ok := l.intOf(tm, u.Elem()); ok {
					e = v.String()
				}
			}
			es = append(es, e)
		}
		return fmt.Sprintf("append(make(%s, 0, %d), %s{%s}...)", l.typeName(t), n.Int64()+extra, l.typeName(t), strings.Join(es, ", ")), true
	case *types.Pointer:
		isnil, _ := l.get(fmt.Sprintf("(= %s lnil)", term))
		if isnil == "true" {
			return fmt.Sprintf("(%s)(nil)", l.typeName(t)), true
		}
		st, ok := u.Elem().Underlying().(*types.Struct)
		if !ok {
			return "", false
		}
		body, ok := l.structLitAt(term, st, depth+1)
		if !ok {
			return "", false
		}
		return fmt.Sprintf("&%s{%s}", l.typeName(u.Elem()), body), true
	case *types.Struct:
		sn := c.structSort(u)
		var fs []string
		for i := 0; i < u.NumFields(); i++ {
			f := u.Field(i)
			if f.Name() == "_" {
				continue
			}
			v, ok := l.lit(fmt.Sprintf("(%s_f%d %s)", sn, i, term), f.Type(), depth+1)
			if !ok {
				continue // zero value
			}
			fs = append(fs, fmt.Sprintf("%s: %s", f.Name(), v))
		}
		return fmt.Sprintf("%s{%s}", l.typeName(t), strings.Join(fs, ", ")), true
	}
	return "", false
}

// structLitAt renders the fields of the struct stored at loc (entry memory).
func (l *litCtx) structLitAt(loc string, st *types.Struct, depth int) (string, bool) {
	c := l.c
	var fs []string
	for i := 0; i < st.NumFields(); i++ {
		f := st.Field(i)
		if f.Name() == "_" {
			continue
		}
		floc := c.lfield(loc, st, i)
		switch fu := f.Type().Underlying().(type) {
		case *types.Struct:
			body, ok := l.structLitAt(floc, fu, depth+1)
			if ok {
				fs = append(fs, fmt.Sprintf("%s: %s{%s}", f.Name(), l.typeName(f.Type()), body))
			}
			continue
		case *types.Array:
			continue
		}
		mem := fmt.Sprintf("M_%s_0", c.memKey(f.Type()))
		if !c.declared[mem] {
			continue
		}
		v, ok := l.lit(fmt.Sprintf("(select %s %s)", mem, floc), f.Type(), depth+1)
		if ok {
			fs = append(fs, fmt.Sprintf("%s: %s", f.Name(), v))
		}
	}
	return strings.Join(fs, ", "), true
}

// ReplayTest builds the source of an in-package test calling fn with the model's inputs.
func ReplayTest(fn *ssa.Function, o *Obligation, model map[string]string) (src string, notes []string, ok bool) {
	if fn == nil || len(model) == 0 {
		return "", nil, false
	}
	if fn.Parent() != nil || len(fn.FreeVars) > 0 {
		return "", []string{"closure: cannot be called directly"}, false
	}
	if fn.TypeParams().Len() > 0 {
		return "", []string{"generic function: not replayed"}, false
	}
	l := &litCtx{c: o.ctx, model: model, pkg: fn.Pkg.Pkg}
	var decls, args []string
	for i, mv := range o.Model {
		v, ok := l.lit(mv.Term, mv.Type, 0)
		if !ok {
			return "", append(l.notes, fmt.Sprintf("parameter %s of type %s cannot be materialised from the model", mv.Name, mv.Type)), false
		}
		name := fmt.Sprintf("a%d", i)
		decls = append(decls, fmt.Sprintf("\t%s := %s", name, v))
		args = append(args, name)
	}
	var call string
	if fn.Signature.Recv() != nil {
		call = fmt.Sprintf("%s.%s(%s)", args[0], fn.Name(), strings.Join(args[1:], ", "))
	} else {
		call = fmt.Sprintf("%s(%s)", fn.Name(), strings.Join(args, ", "))
	}
	if fn.Signature.Variadic() {
		call = strings.TrimSuffix(call, ")") + "...)"
	}
	nres := fn.Signature.Results().Len()
	var lhs, prints []string
	for i := 0; i < nres; i++ {
		lhs = append(lhs, fmt.Sprintf("r%d", i))
		prints = append(prints, fmt.Sprintf("\tfmt.Printf(\"REPLAY-RESULT %d: %%s\\n\", verifPP(r%d))", i, i))
	}
	var sb strings.Builder
	extra := ""
	for path, name := range l.imports {
		if path != "fmt" && path != "reflect" && path != "testing" {
			extra += fmt.Sprintf("\t%s %q\n", name, path)
		}
	}
	sb.WriteString(fmt.Sprintf("package %s\n\nimport (\n\t\"fmt\"\n\t\"reflect\"\n\t\"testing\"\n%s)\n\n", fn.Pkg.Pkg.Name(), extra))
	sb.WriteString("func verifPP(x any) string {\n\tv := reflect.ValueOf(x)\n\tif v.IsValid() && v.Kind() == reflect.Ptr && !v.IsNil() {\n\t\treturn fmt.Sprintf(\"&%#v\", v.Elem().Interface())\n\t}\n\treturn fmt.Sprintf(\"%#v\", x)\n}\n\n")
	sb.WriteString("// Generated by govc from a solver counterexample for obligation\n//   " + o.Name + "\n")
	sb.WriteString("func TestVerifReplay(t *testing.T) {\n")
	sb.WriteString("\tdefer func() {\n\t\tif r := recover(); r != nil {\n\t\t\tfmt.Printf(\"REPLAY-PANIC: %v\\n\", r)\n\t\t}\n\t}()\n")
	sb.WriteString(strings.Join(decls, "\n") + "\n")
	for i := range args {
		sb.WriteString(fmt.Sprintf("\tfmt.Printf(\"REPLAY-ARG %d: %%s\\n\", verifPP(a%d))\n", i, i))
	}
	if nres > 0 {
		sb.WriteString("\t" + strings.Join(lhs, ", ") + " := " + call + "\n")
		sb.WriteString(strings.Join(prints, "\n") + "\n")
	} else {
		sb.WriteString("\t" + call + "\n")
	}
	for i := range args {
		sb.WriteString(fmt.Sprintf("\tfmt.Printf(\"REPLAY-ARG-AFTER %d: %%s\\n\", verifPP(a%d))\n", i, i))
	}
	sb.WriteString("\tfmt.Println(\"REPLAY-DONE\")\n}\n")
	return sb.String(), l.notes, true
}
