package main

import (
	"bytes"
	"context"
	"fmt"
	"go/types"
	"os"
	"os/exec"
	"path/filepath"
	"strings"
	"sync"
	"time"
)

type Result struct {
	O       *Obligation
	Status  string // unsat | sat | unknown | error
	Solver  string
	Ms      int64
	Output  string
	File    string
	Tried   []string
	Model   map[string]string
	Agree   []string // thorough: all solver verdicts
}

type solverDef struct {
	name string
	args func(timeoutS int, file string) []string
}

var solvers = []solverDef{
	{"z3-new", func(t int, f string) []string { return []string{"z3-new", fmt.Sprintf("-T:%d", t), f} }},
	{"cvc5", func(t int, f string) []string {
		return []string{"cvc5", fmt.Sprintf("--tlimit=%d", t*1000), "--produce-models", f}
	}},
	{"z3", func(t int, f string) []string { return []string{"z3", fmt.Sprintf("-T:%d", t), f} }},
}

func (o *Obligation) smt(getModel bool, skolem bool) string {
	var sb strings.Builder
	c := o.ctx
	sb.WriteString(c.Prelude())
	for _, l := range c.script[:o.pos] {
		sb.WriteString(l)
		sb.WriteByte('\n')
	}
	if o.IsCover {
		sb.WriteString(fmt.Sprintf("(assert %s)\n", o.pc))
	} else {
		if skolem {
			// (second form of the same query, tried in the portfolio: goal negated with explicit skolemisation)
			sb.WriteString(fmt.Sprintf("(assert %s)\n", o.pc))
			for _, l := range negatedGoal(o.goal) {
				sb.WriteString(l)
				sb.WriteByte('\n')
			}
		} else {
			sb.WriteString(fmt.Sprintf("(assert (not (=> %s %s)))\n", o.pc, o.goal))
		}
	}
	sb.WriteString("(check-sat)\n")
	if getModel && len(o.Model) > 0 {
		var terms []string
		for _, m := range o.Model {
			terms = append(terms, modelTerms(c, m)...)
		}
		if len(terms) > 0 {
			sb.WriteString("(get-value (" + strings.Join(terms, " ") + "))\n")
		}
	}
	return sb.String()
}

// smallModelAsserts bounds every slice/string length that the replay would have to materialise.
func (o *Obligation) smallModelAsserts() string {
	c := o.ctx
	var sb strings.Builder
	seen := map[string]bool{}
	intT := types.Typ[types.Int]
	for _, m := range o.Model {
		for _, t := range modelTerms(c, m) {
			if seen[t] {
				continue
			}
			seen[t] = true
			switch {
			case strings.HasPrefix(t, "(slen ") || strings.HasPrefix(t, "(str_len "):
				sb.WriteString(fmt.Sprintf("(assert %s)\n", c.cmp("<=", intT, t, c.idxLit(20))))
			case strings.HasPrefix(t, "(scap "):
				sb.WriteString(fmt.Sprintf("(assert %s)\n", c.cmp("<=", intT, t, c.idxLit(64))))
			}
		}
	}
	return sb.String()
}

func runSolver(s solverDef, timeoutS int, file string) (status, out string, ms int64) {
	return runSolverCtx(context.Background(), s, timeoutS, file)
}

func runSolverCtx(parent context.Context, s solverDef, timeoutS int, file string) (status, out string, ms int64) {
	// one slot per solver process: portfolios never oversubscribe the machine
	procSlots <- struct{}{}
	defer func() { <-procSlots }()
	if parent.Err() != nil {
		return "unknown", "cancelled", 0
	}
	ctx, cancel := context.WithTimeout(parent, time.Duration(timeoutS+2)*time.Second)
	defer cancel()
	args := s.args(timeoutS, file)
	cmd := exec.CommandContext(ctx, args[0], args[1:]...)
	var buf bytes.Buffer
	cmd.Stdout = &buf
	cmd.Stderr = &buf
	t0 := time.Now()
	_ = cmd.Run()
	ms = time.Since(t0).Milliseconds()
	out = buf.String()
	if parent.Err() != nil {
		return "unknown", "cancelled", ms
	}
	first := ""
	for _, l := range strings.Split(out, "\n") {
		l = strings.TrimSpace(l)
		if l == "" || strings.HasPrefix(l, "WARNING") {
			continue
		}
		first = l
		break
	}
	// an (error ...) before the verdict means the script was malformed: never trust what follows.
	// (z3 4.8 prints an error for get-value after unsat; that comes after the verdict line.)
	if strings.HasPrefix(first, "(error") {
		return "error", out, ms
	}
	switch first {
	case "unsat", "sat", "unknown":
		status = first
	case "timeout":
		status = "unknown"
	default:
		if first == "" || strings.Contains(out, "timeout") {
			// (no verdict line at all: the solver was killed at the time limit, possibly after printing warnings)
			status = "unknown"
		} else {
			status = "error"
		}
	}
	return
}

// seeded: z3-new with a different random seed. SMT search on quantified queries is heavy-tailed: the same
// query that times out with one seed is decided in a fraction of a second with another, so an undecided
// obligation is retried as a portfolio of seeds (any `unsat` is a proof, whatever the seed).
func seeded(seed int) solverDef {
	return solverDef{fmt.Sprintf("z3-new#%d", seed), func(t int, f string) []string {
		return []string{"z3-new", fmt.Sprintf("-T:%d", t), fmt.Sprintf("smt.random_seed=%d", seed), fmt.Sprintf("sat.random_seed=%d", seed), f}
	}}
}

const portfolioSeeds = 6

// onFile: the solver d run on another script of the same obligation.
func onFile(d solverDef, file string) solverDef {
	return solverDef{d.name + "/sk", func(t int, _ string) []string { return d.args(t, file) }}
}

var procSlots = make(chan struct{}, 16)

// quantified: the query contains quantifiers or recursive definitions beyond the prelude's (then E-matching
// order matters and a seed portfolio pays off; quantifier-free bit-vector queries gain nothing from seeds).
func quantified(text string) bool {
	return strings.Contains(text, "(forall ") || strings.Contains(text, "(exists ")
}

// portfolio runs the given solvers concurrently; the first definite answer wins and the rest are killed.
func portfolio(defs []solverDef, timeoutS int, file string) (status, solver, out string, ms int64, tried []string) {
	ctx, cancel := context.WithCancel(context.Background())
	defer cancel()
	type ans struct {
		name, st, out string
		ms            int64
	}
	ch := make(chan ans, len(defs))
	for _, d := range defs {
		go func(d solverDef) {
			st, o, m := runSolverCtx(ctx, d, timeoutS, file)
			ch <- ans{d.name, st, o, m}
		}(d)
	}
	status = "unknown"
	for range defs {
		a := <-ch
		if a.out != "cancelled" {
			tried = append(tried, fmt.Sprintf("%s:%s:%dms", a.name, a.st, a.ms))
		}
		if (a.st == "unsat" || a.st == "sat") && status == "unknown" {
			status, solver, out, ms = a.st, a.name, a.out, a.ms
			cancel()
		} else if status == "unknown" && out == "" && a.out != "cancelled" {
			out = a.out
		}
	}
	return
}

// Solve discharges obligations in parallel. Ladder: z3-new, cvc5, z3 (first definite answer wins).
func Solve(obls []*Obligation, dir string, timeoutS int, allSolvers bool, jobs int) []*Result {
	res := make([]*Result, len(obls))
	var wg sync.WaitGroup
	sem := make(chan struct{}, 4*jobs) // obligations in flight; solver processes are bounded by procSlots
	// identical queries (e.g. the two byte-identical kbin copies) are solved once
	texts := make([]string, len(obls))
	first := map[string]int{}
	dupOf := make([]int, len(obls))
	for i, o := range obls {
		texts[i] = o.smt(true, false)
		if j, ok := first[texts[i]]; ok {
			dupOf[i] = j
		} else {
			first[texts[i]] = i
			dupOf[i] = -1
		}
	}
	defer func() {
		for i, j := range dupOf {
			if j >= 0 && res[j] != nil {
				cp := *res[j]
				cp.O = obls[i]
				res[i] = &cp
			}
		}
	}()
	for i, o := range obls {
		if dupOf[i] >= 0 {
			continue
		}
		wg.Add(1)
		go func(i int, o *Obligation) {
			defer wg.Done()
			sem <- struct{}{}
			defer func() { <-sem }()
			_ = jobs
			file := filepath.Join(dir, fmt.Sprintf("o%04d.smt2", i))
			text := texts[i]
			if err := os.WriteFile(file, []byte(text), 0o644); err != nil {
				res[i] = &Result{O: o, Status: "error", Output: err.Error()}
				return
			}
			r := &Result{O: o, File: file, Status: "unknown"}
			if !allSolvers {
				// quick schedule: a short first attempt, then a portfolio (seeds of z3-new, cvc5, z3 4.8)
				firstT := timeoutS
				if firstT > 3 {
					firstT = 3
				}
				st, out, ms := runSolver(solvers[0], firstT, file)
				r.Tried = append(r.Tried, fmt.Sprintf("%s:%s:%dms", solvers[0].name, st, ms))
				if st == "unsat" || st == "sat" {
					r.Status, r.Solver, r.Ms, r.Output = st, solvers[0].name, ms, out
				} else if o.Soft || o.IsCover {
					// vacuity probes (must-be-satisfiable queries): only `unsat` matters and a contradiction shows
					// up quickly; an undecided probe is not worth a portfolio
					r.Output, r.Ms = out, ms
				} else {
					r.Output, r.Ms = out, ms
					var defs []solverDef
					if timeoutS > firstT {
						defs = append(defs, solvers[0])
					}
					defs = append(defs, solvers[1], solvers[2])
					if quantified(text) {
						for k := 1; k <= portfolioSeeds; k++ {
							defs = append(defs, seeded(k))
						}
						// the same query with the goal skolemised by hand (skolem.go): some quantified goals are
						// decided at once in one form and not at all in the other, in both directions
						if text2 := o.smt(true, true); text2 != text {
							file2 := filepath.Join(dir, fmt.Sprintf("o%04d_sk.smt2", i))
							if err := os.WriteFile(file2, []byte(text2), 0o644); err == nil {
								for _, d := range []solverDef{solvers[0], solvers[1], seeded(1), seeded(2)} {
									defs = append(defs, onFile(d, file2))
								}
							}
						}
					}
					pst, psolver, pout, pms, tried := portfolio(defs, timeoutS, file)
					r.Tried = append(r.Tried, tried...)
					if pst == "unsat" || pst == "sat" {
						r.Status, r.Solver, r.Ms, r.Output = pst, psolver, pms, pout
					} else {
						r.Ms += int64(timeoutS) * 1000
						if st == "error" && pout != "" {
							r.Output = pout
						}
					}
				}
			}
			for _, s := range solvers {
				if !allSolvers {
					break
				}
				st, out, ms := runSolver(s, timeoutS, file)
				r.Tried = append(r.Tried, fmt.Sprintf("%s:%s:%dms", s.name, st, ms))
				r.Agree = append(r.Agree, s.name+"="+st)
				if st == "unsat" || st == "sat" {
					if r.Status != "unsat" && r.Status != "sat" {
						r.Status, r.Solver, r.Ms, r.Output = st, s.name, ms, out
					} else if r.Status != st {
						r.Status = "error"
						r.Output = "solver disagreement: " + strings.Join(r.Agree, " ")
					}
					if !allSolvers {
						break
					}
				} else if r.Output == "" || r.Status == "unknown" {
					if r.Status != "unsat" && r.Status != "sat" {
						r.Output = out
						r.Ms += ms
					}
				}
			}
			if allSolvers && r.Status == "unknown" {
				var defs []solverDef
				for k := 1; k <= portfolioSeeds; k++ {
					defs = append(defs, seeded(k))
				}
				if text2 := o.smt(true, true); text2 != text {
					file2 := filepath.Join(dir, fmt.Sprintf("o%04d_sk.smt2", i))
					if err := os.WriteFile(file2, []byte(text2), 0o644); err == nil {
						for _, d := range []solverDef{solvers[0], solvers[1], seeded(1), seeded(2)} {
							defs = append(defs, onFile(d, file2))
						}
					}
				}
				pst, psolver, pout, pms, tried := portfolio(defs, timeoutS, file)
				r.Tried = append(r.Tried, tried...)
				if pst == "unsat" || pst == "sat" {
					r.Status, r.Solver, r.Ms, r.Output = pst, psolver, pms, pout
				}
			}
			if r.Status == "unknown" {
				for _, t := range r.Tried {
					if strings.Contains(t, ":error:") {
						r.Status = "error"
					}
				}
			}
			if r.Status == "sat" {
				r.Model = parseModel(r.Output)
				// prefer a small counterexample (replayable): bound every length in the model terms
				if small := o.smallModelAsserts(); small != "" && !o.IsCover {
					f2 := strings.TrimSuffix(file, ".smt2") + ".small.smt2"
					t2 := strings.Replace(text, "(check-sat)\n", small+"(check-sat)\n", 1)
					if os.WriteFile(f2, []byte(t2), 0o644) == nil {
						for _, s := range solvers[:2] {
							st, out, _ := runSolver(s, timeoutS, f2)
							if st == "sat" {
								r.Model = parseModel(out)
								r.Output = out
								break
							}
						}
					}
				}
			}
			res[i] = r
		}(i, o)
	}
	wg.Wait()
	return res
}

// parseModel parses "(get-value ...)" output: ((term value) (term value) ...)
func parseModel(out string) map[string]string {
	m := map[string]string{}
	i := strings.Index(out, "\n")
	if i < 0 {
		return m
	}
	s := strings.TrimSpace(out[i+1:])
	if !strings.HasPrefix(s, "(") {
		return m
	}
	toks := sexpTokens(s)
	pos := 0
	tree := parseSexp(toks, &pos)
	lst, ok := tree.([]any)
	if !ok {
		return m
	}
	for _, it := range lst {
		pair, ok := it.([]any)
		if !ok || len(pair) != 2 {
			continue
		}
		m[sexpString(pair[0])] = sexpString(pair[1])
	}
	return m
}

func sexpTokens(s string) []string {
	var toks []string
	i := 0
	for i < len(s) {
		switch c := s[i]; {
		case c == '(' || c == ')':
			toks = append(toks, string(c))
			i++
		case c == ' ' || c == '\n' || c == '\t' || c == '\r':
			i++
		case c == '|':
			j := strings.IndexByte(s[i+1:], '|')
			toks = append(toks, s[i:i+j+2])
			i += j + 2
		case c == '"':
			j := strings.IndexByte(s[i+1:], '"')
			toks = append(toks, s[i:i+j+2])
			i += j + 2
		default:
			j := i
			for j < len(s) && !strings.ContainsRune("() \n\t\r", rune(s[j])) {
				j++
			}
			toks = append(toks, s[i:j])
			i = j
		}
	}
	return toks
}

func parseSexp(toks []string, pos *int) any {
	if *pos >= len(toks) {
		return nil
	}
	t := toks[*pos]
	*pos++
	if t == "(" {
		var lst []any
		for *pos < len(toks) && toks[*pos] != ")" {
			lst = append(lst, parseSexp(toks, pos))
		}
		*pos++
		return lst
	}
	return t
}

func sexpString(x any) string {
	switch x := x.(type) {
	case string:
		return x
	case []any:
		var ps []string
		for _, y := range x {
			ps = append(ps, sexpString(y))
		}
		return "(" + strings.Join(ps, " ") + ")"
	}
	return ""
}
