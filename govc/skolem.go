package main

import (
	"fmt"
	"os"
	"strings"
)

// Goal negation with explicit skolemisation. (assert (not (=> pc G))) is written as (assert pc) followed by the
// negation of G, where a G of the shape (=> A B) contributes (assert A) and continues with B, and a G of the
// shape (forall ((x S)..) B) declares fresh constants for the bound variables and continues with B. This is the
// textbook satisfiability-preserving transformation; the solvers do the same internally, but z3 was observed to
// time out on a negated quantified goal under an implication that it decides at once in this form.

type sx struct {
	atom string
	kids []*sx
}

func parseSx(s string) (*sx, bool) {
	pos := 0
	var rec func() (*sx, bool)
	skip := func() {
		for pos < len(s) && (s[pos] == ' ' || s[pos] == '\n' || s[pos] == '\t') {
			pos++
		}
	}
	rec = func() (*sx, bool) {
		skip()
		if pos >= len(s) {
			return nil, false
		}
		if s[pos] == '(' {
			pos++
			n := &sx{}
			for {
				skip()
				if pos >= len(s) {
					return nil, false
				}
				if s[pos] == ')' {
					pos++
					return n, true
				}
				k, ok := rec()
				if !ok {
					return nil, false
				}
				n.kids = append(n.kids, k)
			}
		}
		if s[pos] == ')' {
			return nil, false
		}
		st := pos
		if s[pos] == '"' {
			pos++
			for pos < len(s) && s[pos] != '"' {
				pos++
			}
			pos++
		} else if s[pos] == '|' {
			pos++
			for pos < len(s) && s[pos] != '|' {
				pos++
			}
			pos++
		} else {
			for pos < len(s) && s[pos] != ' ' && s[pos] != '(' && s[pos] != ')' && s[pos] != '\n' && s[pos] != '\t' {
				pos++
			}
		}
		if pos > len(s) {
			return nil, false
		}
		return &sx{atom: s[st:pos]}, true
	}
	n, ok := rec()
	if !ok {
		return nil, false
	}
	skip()
	if pos != len(s) {
		return nil, false
	}
	return n, true
}

func (n *sx) String() string {
	if n.kids == nil && n.atom != "" {
		return n.atom
	}
	var sb strings.Builder
	sb.WriteByte('(')
	for i, k := range n.kids {
		if i > 0 {
			sb.WriteByte(' ')
		}
		sb.WriteString(k.String())
	}
	sb.WriteByte(')')
	return sb.String()
}

func (n *sx) head() string {
	if len(n.kids) > 0 && n.kids[0].kids == nil {
		return n.kids[0].atom
	}
	return ""
}

// binds: some binder (forall / exists / let / lambda) inside n binds the name v.
func (n *sx) binds(v string) bool {
	switch n.head() {
	case "forall", "exists", "let", "lambda":
		if len(n.kids) > 1 {
			for _, b := range n.kids[1].kids {
				if len(b.kids) > 0 && b.kids[0].atom == v {
					return true
				}
			}
		}
	}
	for _, k := range n.kids {
		if k.binds(v) {
			return true
		}
	}
	return false
}

func (n *sx) subst(m map[string]string) *sx {
	if n.kids == nil {
		if r, ok := m[n.atom]; ok && n.atom != "" {
			return &sx{atom: r}
		}
		return n
	}
	out := &sx{kids: make([]*sx, len(n.kids))}
	for i, k := range n.kids {
		out.kids[i] = k.subst(m)
	}
	return out
}

// negatedGoal returns the script lines that assert the negation of goal.
func negatedGoal(goal string) []string {
	g, ok := parseSx(goal)
	if !ok || os.Getenv("GOVC_NOSKOLEM") != "" {
		return []string{fmt.Sprintf("(assert (not %s))", goal)}
	}
	var lines []string
	n := 0
	for {
		switch {
		case g.head() == "=>" && len(g.kids) == 3:
			lines = append(lines, fmt.Sprintf("(assert %s)", g.kids[1].String()))
			g = g.kids[2]
			continue
		case g.head() == "forall" && len(g.kids) == 3:
			body := g.kids[2]
			if body.head() == "!" && len(body.kids) >= 2 {
				body = body.kids[1]
			}
			m := map[string]string{}
			okb := true
			var decls []string
			for _, b := range g.kids[1].kids {
				if len(b.kids) != 2 || b.kids[0].kids != nil || body.binds(b.kids[0].atom) {
					okb = false
					break
				}
				nm := fmt.Sprintf("sk!%d!%s", n, strings.Trim(b.kids[0].atom, "|"))
				n++
				m[b.kids[0].atom] = nm
				decls = append(decls, fmt.Sprintf("(declare-const %s %s)", nm, b.kids[1].String()))
			}
			if !okb {
				break
			}
			lines = append(lines, decls...)
			g = body.subst(m)
			continue
		}
		break
	}
	return append(lines, fmt.Sprintf("(assert (not %s))", g.String()))
}
