package sr

import (
	"encoding/binary"
	"fmt"
	"testing"
)

// Hand-written replay for the failed obligation sr.(*ConfluentHeader).DecodeIndex/make#0:
// the solver's counterexample has the index length l (first varint) larger than any legal
// allocation while maxLength <= 0. Input: zig-zag varint of 1<<50, maxLength 0.
func TestVerifReplayDecodeIndex(t *testing.T) {
	defer func() {
		if r := recover(); r != nil {
			fmt.Printf("REPLAY-PANIC: %v\n", r)
			t.Fatalf("DecodeIndex panicked on hostile input: %v", r)
		}
	}()
	in := binary.AppendVarint(nil, 1<<50)
	var h ConfluentHeader
	idx, rest, err := h.DecodeIndex(in, 0)
	fmt.Printf("REPLAY-RESULT: len(idx)=%d rest=%d err=%v\n", len(idx), len(rest), err)
}
