package kfake

// Replay for C32 (failed obligation: handleProduce pre@call pushBatch "b.NumRecords >= 0" / site
// [record-count-is-positive]). A raw protocol client sends a v2 record batch whose header claims NumRecords = -3 (with
// the matching LastOffsetDelta = -4, a correct length and CRC). The produce handler validates LastOffsetDelta ==
// NumRecords-1 but not the sign of the count, and pushBatch advances the high watermark by the count: the high
// watermark moves BACKWARDS and the next appended batch is given offsets that are already taken.

import (
	"context"
	"hash/crc32"
	"testing"
	"time"

	"github.com/twmb/franz-go/pkg/kgo"
	"github.com/twmb/franz-go/pkg/kmsg"
	"github.com/twmb/franz-go/pkg/kversion"
)

func zzBatch(numRecords int32, payload []kmsg.Record) []byte {
	var recs []byte
	for i := range payload {
		r := payload[i]
		r.OffsetDelta = int32(i)
		body := r.AppendTo(nil)[1:] // placeholder: recompute with the right length below
		_ = body
	}
	for i := range payload {
		r := payload[i]
		r.OffsetDelta = int32(i)
		r.Length = 0
		enc := r.AppendTo(nil)
		// enc = varint(Length=0) ++ fields; re-encode with the real length
		r.Length = int32(len(enc) - 1)
		recs = append(recs, r.AppendTo(nil)...)
	}
	b := kmsg.RecordBatch{
		FirstOffset: 0, PartitionLeaderEpoch: -1, Magic: 2, Attributes: 0,
		LastOffsetDelta: numRecords - 1, FirstTimestamp: 1, MaxTimestamp: 1,
		ProducerID: -1, ProducerEpoch: -1, FirstSequence: -1, NumRecords: numRecords, Records: recs,
	}
	raw := b.AppendTo(nil)
	b.Length = int32(len(raw) - 12)
	raw = b.AppendTo(nil)
	b.CRC = int32(crc32.Checksum(raw[21:], crc32.MakeTable(crc32.Castagnoli)))
	return b.AppendTo(nil)
}

func zzProduce(t *testing.T, cl *kgo.Client, topic string, batch []byte) int16 {
	t.Helper()
	req := kmsg.NewPtrProduceRequest()
	req.Version = 7
	req.Acks = -1
	req.TimeoutMillis = 5000
	rt := kmsg.NewProduceRequestTopic()
	rt.Topic = topic
	rp := kmsg.NewProduceRequestTopicPartition()
	rp.Partition = 0
	rp.Records = batch
	rt.Partitions = append(rt.Partitions, rp)
	req.Topics = append(req.Topics, rt)
	ctx, cancel := context.WithTimeout(context.Background(), 10*time.Second)
	defer cancel()
	resp, err := cl.Request(ctx, req)
	if err != nil {
		t.Fatalf("produce: %v", err)
	}
	return resp.(*kmsg.ProduceResponse).Topics[0].Partitions[0].ErrorCode
}

func zzEnd(t *testing.T, cl *kgo.Client, topic string) int64 {
	t.Helper()
	req := kmsg.NewPtrListOffsetsRequest()
	req.ReplicaID = -1
	rt := kmsg.NewListOffsetsRequestTopic()
	rt.Topic = topic
	rp := kmsg.NewListOffsetsRequestTopicPartition()
	rp.Partition = 0
	rp.Timestamp = -1
	rt.Partitions = append(rt.Partitions, rp)
	req.Topics = append(req.Topics, rt)
	resp, err := cl.Request(context.Background(), req)
	if err != nil {
		t.Fatal(err)
	}
	return resp.(*kmsg.ListOffsetsResponse).Topics[0].Partitions[0].Offset
}

func TestZZReplayC32NegativeRecordCount(t *testing.T) {
	const topic = "c32-topic"
	c, err := NewCluster(NumBrokers(1), SeedTopics(1, topic))
	if err != nil {
		t.Fatal(err)
	}
	defer c.Close()
	cl, err := kgo.NewClient(kgo.SeedBrokers(c.ListenAddrs()...), kgo.MaxVersions(kversion.V3_0_0()))
	if err != nil {
		t.Fatal(err)
	}
	defer cl.Close()

	rec := kmsg.Record{Value: []byte("v")}
	if ec := zzProduce(t, cl, topic, zzBatch(5, []kmsg.Record{rec, rec, rec, rec, rec})); ec != 0 {
		t.Fatalf("good batch rejected: %d", ec)
	}
	before := zzEnd(t, cl, topic)
	if before != 5 {
		t.Fatalf("high watermark after 5 records: %d", before)
	}
	ec := zzProduce(t, cl, topic, zzBatch(-3, nil))
	after := zzEnd(t, cl, topic)
	if ec == 0 || after < before {
		t.Fatalf("VIOLATION C32: a batch claiming NumRecords=-3 was answered with error code %d and moved the high watermark from %d to %d", ec, before, after)
	}
}
