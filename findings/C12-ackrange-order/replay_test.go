package kgo

import (
	"fmt"
	"testing"
)

// Hand-written replay for the obligation kgo.buildAckRanges/post0 (rangesAsc(ranges)):
// one drain of one partition holds user acknowledgements for offsets 5 and 6 and a gap range [3,4]
// (acquired offsets that carried no record, e.g. compacted away). The batches built for the request
// must be ascending and non-overlapping; brokers (and kfake's validateOneAckBatch) reject anything else.
func TestVerifReplayAckRangeOrder(t *testing.T) {
	slab := &shareAckSlab{}
	mk := func(off int64) *shareAckState {
		s := &shareAckState{offset: off, slab: slab}
		s.status.Store(int32(AckAccept))
		return s
	}
	entries := []*shareAckState{mk(6), mk(5)}
	gaps := []shareAckRange{{firstOffset: 3, lastOffset: 4, ackType: int8(AckAccept) + 100}} // distinct type: never coalesced
	ranges, _ := buildAckRanges(entries, gaps)
	bad := 0
	for i, r := range ranges {
		fmt.Printf("REPLAY-RESULT range %d: [%d,%d] type %d\n", i, r.firstOffset, r.lastOffset, r.ackType)
		if i > 0 && ranges[i-1].lastOffset >= r.firstOffset {
			bad++
		}
	}
	if bad > 0 {
		t.Fatalf("acknowledgement batches are not in ascending, non-overlapping order (%d inversions)", bad)
	}
}
