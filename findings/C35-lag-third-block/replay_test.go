package kadm

import (
	"errors"
	"fmt"
	"testing"
)

// Hand-written replay for the failed obligations
//   kadm.CalculateGroupLagWithStartOffsets/site mapupdate GroupMemberLag#2 lag-on-error
//   kadm.CalculateGroupLagWithStartOffsets/site mapupdate GroupMemberLag#2 lag-from-zero
// (third block: partitions that have a listed end offset but are neither assigned nor committed).
func TestVerifReplayLagThirdBlock(t *testing.T) {
	group := DescribedGroup{Group: "g", State: "Empty"}
	// something committed on topic "t" partition 0 so that topic t is in the lag map; partitions 1 and 2 are the
	// never-committed, unassigned ones
	commit := OffsetResponses{"t": {0: {Offset: Offset{Topic: "t", Partition: 0, At: 5}}}}
	endErr := errors.New("LEADER_NOT_AVAILABLE")
	end := ListedOffsets{"t": {
		0: {Topic: "t", Partition: 0, Offset: 10},
		1: {Topic: "t", Partition: 1, Offset: 7, Err: endErr}, // errored end offset
		2: {Topic: "t", Partition: 2, Offset: -3},            // negative end offset, no error, no start offset
	}}
	start := ListedOffsets{"t": {
		1: {Topic: "t", Partition: 1, Offset: 2}, // usable start offset
	}}
	l := CalculateGroupLagWithStartOffsets(group, commit, start, end)
	bad := 0
	p1 := l["t"][1]
	fmt.Printf("REPLAY-RESULT partition 1 (end offset errored, start ok): Lag=%d Err=%v\n", p1.Lag, p1.Err)
	if p1.Err != nil && p1.Lag != -1 {
		bad++
	}
	p2 := l["t"][2]
	fmt.Printf("REPLAY-RESULT partition 2 (end -3, nothing committed, no start): Lag=%d Err=%v\n", p2.Lag, p2.Err)
	if p2.Err == nil && p2.Lag < 0 {
		bad++
	}
	if bad > 0 {
		t.Fatalf("%d entries break 'Lag is -1 exactly with an error, else floored at zero'", bad)
	}
}
