package kfake

// Replay for C33 (failed obligation: loadGroupsLog / loadPIDsLog [torn-tail-removed-before-appending]).
// History: SyncWrites on. (0) a group commits offset 5; the process stops while the NEXT groups.log entry is being
// written, leaving a partial frame at the end of the file. (1) restart on the same directory: the torn tail is
// detected ("discarding N corrupt trailing bytes") but left in the file; the group commits offset 10 - acknowledged
// and fsynced - which is appended AFTER the torn bytes; the process stops again. (2) restart: readEntries stops at
// the torn frame, so the acknowledged commit of offset 10 is not recovered.

import (
	"context"
	"os"
	"path/filepath"
	"testing"
	"time"

	"github.com/twmb/franz-go/pkg/kadm"
	"github.com/twmb/franz-go/pkg/kgo"
)

func zzCommit(t *testing.T, c *Cluster, group, topic string, at int64) {
	t.Helper()
	adm := kadm.NewClient(newPlainClient(t, c))
	var os kadm.Offsets
	os.Add(kadm.Offset{Topic: topic, Partition: 0, At: at, LeaderEpoch: -1})
	ctx, cancel := context.WithTimeout(context.Background(), 10*time.Second)
	defer cancel()
	resp, err := adm.CommitOffsets(ctx, group, os)
	if err != nil {
		t.Fatalf("commit %d: %v", at, err)
	}
	if err := resp.Error(); err != nil {
		t.Fatalf("commit %d: %v", at, err)
	}
}

func zzFetch(t *testing.T, c *Cluster, group, topic string) int64 {
	t.Helper()
	adm := kadm.NewClient(newPlainClient(t, c))
	offsets, err := adm.FetchOffsets(context.Background(), group)
	if err != nil {
		t.Fatal(err)
	}
	o, ok := offsets.Lookup(topic, 0)
	if !ok {
		return -1
	}
	return o.At
}

func TestZZReplayC33TornTailThenAcknowledgedCommit(t *testing.T) {
	dir := t.TempDir()
	const topic, group = "c33-topic", "c33-group"

	// phase 0
	{
		c, err := NewCluster(DataDir(dir), SyncWrites(), NumBrokers(1), SeedTopics(1, topic))
		if err != nil {
			t.Fatal(err)
		}
		produceN(t, c, topic, 20)
		zzCommit(t, c, group, topic, 5)
		// the process stops here (no Close) while the next entry is being written: a prefix of a frame reaches the file
		f, err := os.OpenFile(filepath.Join(dir, "groups.log"), os.O_APPEND|os.O_WRONLY, 0o644)
		if err != nil {
			t.Fatal(err)
		}
		// header of a 64-byte entry (length 66, some CRC, version 1) and the first 5 of its data bytes
		if _, err := f.Write([]byte{66, 0, 0, 0, 0xde, 0xad, 0xbe, 0xef, 1, 0, '{', '"', 't', '"', ':'}); err != nil {
			t.Fatal(err)
		}
		f.Sync()
		f.Close()
	}
	// phase 1
	{
		c, err := NewCluster(DataDir(dir), SyncWrites(), NumBrokers(1))
		if err != nil {
			t.Fatalf("restart 1: %v", err)
		}
		if got := zzFetch(t, c, group, topic); got != 5 {
			t.Fatalf("restart 1: committed offset %d, want 5", got)
		}
		zzCommit(t, c, group, topic, 10) // acknowledged, SyncWrites
		if got := zzFetch(t, c, group, topic); got != 10 {
			t.Fatalf("restart 1 after commit: committed offset %d, want 10", got)
		}
		// the process stops again (no Close)
	}
	// phase 2
	{
		c, err := NewCluster(DataDir(dir), SyncWrites(), NumBrokers(1))
		if err != nil {
			t.Fatalf("restart 2: %v", err)
		}
		defer c.Close()
		if got := zzFetch(t, c, group, topic); got != 10 {
			t.Fatalf("VIOLATION C33: offset commit 10 was acknowledged with SyncWrites before the stop, but the restart recovered %d", got)
		}
	}
	_ = kgo.NewClient
}
