package kfake

import (
	"fmt"
	"testing"

	"github.com/twmb/franz-go/pkg/kmsg"
)

// Hand-written replay for the failed obligation kfake.(*clusterACLs).anyAllowed/post0 (deny-dominance):
// the only ALLOW pattern is dominated by a matching DENY, so no topic is writable, yet anyAllowed is true.
func TestVerifReplayAnyAllowed(t *testing.T) {
	mk := func(name string, pat kmsg.ACLResourcePatternType, perm kmsg.ACLPermissionType, op kmsg.ACLOperation) acl {
		return acl{principal: "User:alice", host: "*", resourceType: kmsg.ACLResourceTypeTopic, resourceName: name, pattern: pat, operation: op, permission: perm}
	}
	cases := map[string][]acl{
		"ALLOW Write foo + DENY Write foo": {
			mk("foo", kmsg.ACLResourcePatternTypeLiteral, kmsg.ACLPermissionTypeAllow, kmsg.ACLOperationWrite),
			mk("foo", kmsg.ACLResourcePatternTypeLiteral, kmsg.ACLPermissionTypeDeny, kmsg.ACLOperationWrite),
		},
		"ALLOW Write foo + DENY All *": {
			mk("foo", kmsg.ACLResourcePatternTypeLiteral, kmsg.ACLPermissionTypeAllow, kmsg.ACLOperationWrite),
			mk("*", kmsg.ACLResourcePatternTypeLiteral, kmsg.ACLPermissionTypeDeny, kmsg.ACLOperationAll),
		},
	}
	bad := 0
	for name, acls := range cases {
		a := &clusterACLs{acls: acls}
		one := a.allowed("User:alice", "1.2.3.4", "foo", kmsg.ACLResourceTypeTopic, kmsg.ACLOperationWrite)
		anyR := a.anyAllowed("User:alice", "1.2.3.4", kmsg.ACLResourceTypeTopic, kmsg.ACLOperationWrite)
		fmt.Printf("REPLAY-RESULT %s: allowed(foo)=%v anyAllowed=%v (Kafka authorizeByResourceType: DENIED)\n", name, one, anyR)
		if anyR {
			bad++
		}
	}
	if bad > 0 {
		t.Fatalf("anyAllowed ignores DENY dominance in %d cases", bad)
	}
}
