package kgo

import (
	"fmt"
	"testing"

	"github.com/twmb/franz-go/pkg/kmsg"
)

// Hand-written replay for the failed obligation kgo.readRawRecordsInto/slice#0: kbin.Varint returns
// n = -5 for a 5-byte varint whose last byte overflows 32 bits; the guard only tests used == 0, so
// in[:total] is sliced with a negative bound. Input: ff ff ff ff 7f.
func TestVerifReplayReadRawRecords(t *testing.T) {
	defer func() {
		if r := recover(); r != nil {
			fmt.Printf("REPLAY-PANIC: %v\n", r)
			t.Fatalf("readRawRecordsInto panicked on hostile bytes: %v", r)
		}
	}()
	rs := make([]kmsg.Record, 1)
	out, n := readRawRecordsInto(rs, []byte{0xff, 0xff, 0xff, 0xff, 0x7f})
	fmt.Printf("REPLAY-RESULT: len(out)=%d nheaders=%d\n", len(out), n)
}
