package kgo

// Replay for C18 (failed obligations: tryAddBatch site store wireLength#0 [known-topic-flexible] / [new-topic-flexible]).
// With a flexible produce version (v9+), produceRequest.AppendTo ends every partition element and every topic
// element with a tagged-field count byte; tryAddBatch did not count those bytes, and baseProduceRequestLength
// (computed for the non-flexible layout) leaves only two bytes of slack. A request packed up to BrokerMaxWriteBytes
// through the real admission rule is therefore written (topics + partitions - 2) bytes over the limit.
// (Scenario adapted from the demo of an independent sub-agent, which reported it as a side finding.)

import (
	"bytes"
	"context"
	"testing"
	"time"
)

func TestZZReplayC18FlexibleRequestOverLimit(t *testing.T) {
	const limit = 4000
	cl, err := NewClient(SeedBrokers("127.0.0.1:1"), ClientID("zz-replay-client"), TransactionalID("replay-transactional-id"))
	if err != nil {
		t.Fatal(err)
	}
	defer cl.Close()
	cl.cfg.maxBrokerWriteBytes = limit
	ts := time.UnixMilli(1700000000000)
	type tp struct {
		topic     string
		partition int32
	}
	layouts := map[string][]tp{
		"one topic, four partitions": {{"orders", 0}, {"orders", 1}, {"orders", 2}, {"orders", 3}},
		"four topics, one partition": {{"orders", 0}, {"payments", 0}, {"a", 7}, {"b", 1}},
	}
	worst := 0
	for name, layout := range layouts {
		for _, version := range []int16{9, 12} {
			for tail := 0; tail < 1400; tail++ {
				req := &produceRequest{txnID: cl.cfg.txnID, acks: -1, timeout: 1000, producerID: 9, producerEpoch: 1,
					wireLength: cl.baseProduceRequestLength(), wireLengthLimit: cl.cfg.maxBrokerWriteBytes}
				req.SetVersion(version)
				added := 0
				for i, where := range layout {
					vlen := (limit - 400) / len(layout)
					if i == len(layout)-1 {
						vlen = tail
					}
					rbuf := &recBuf{cl: cl, topic: where.topic, partition: where.partition}
					rbuf.maxRecordBatchBytes = cl.maxRecordBatchBytesForTopic(where.topic)
					batch := rbuf.newRecordBatch()
					pr := promisedRec{ctx: context.Background(), promise: noPromise, Record: &Record{Value: bytes.Repeat([]byte("v"), vlen), Timestamp: ts, Context: context.Background()}}
					if ok, _ := batch.tryBuffer(pr, int32(version), rbuf.maxRecordBatchBytes, false); !ok {
						t.Fatalf("record with %d byte value rejected by tryBuffer", vlen)
					}
					rbuf.batches = []*recBatch{batch}
					if req.tryAddBatch(int32(version), rbuf, batch) {
						added++
					}
				}
				frame := cl.reqFormatter.AppendRequest(nil, req, 1)
				if over := len(frame) - limit; over > 0 {
					if over > worst {
						worst = over
					}
					t.Errorf("VIOLATION C18: %s v%d tail=%d: %d batches admitted by tryAddBatch, request on the wire is %d bytes > BrokerMaxWriteBytes %d (accounted wireLength %d)",
						name, version, tail, added, len(frame), limit, req.wireLength)
					break
				}
			}
		}
	}
}
