package kgo

import (
	"fmt"
	"context"
	"encoding/binary"
	"io"
	"net"
	"sync"
	"testing"
	"time"

	"github.com/twmb/franz-go/pkg/kmsg"
)

// verifReplayBroker is a hand scripted broker: it answers ApiVersions with a
// fixed table and answers every other request with that request's default
// (empty) response. It records the (key, version) of every request header it
// sees.
type verifReplayBroker struct {
	ln   net.Listener
	keys [][3]int16 // key, min, max

	mu   sync.Mutex
	seen [][2]int16 // key, version
}

func newVerifReplayBroker(t *testing.T, keys [][3]int16) *verifReplayBroker {
	t.Helper()
	ln, err := net.Listen("tcp", "127.0.0.1:0")
	if err != nil {
		t.Fatal(err)
	}
	b := &verifReplayBroker{ln: ln, keys: keys}
	t.Cleanup(func() { ln.Close() })
	go func() {
		for {
			conn, err := ln.Accept()
			if err != nil {
				return
			}
			go b.serve(conn)
		}
	}()
	return b
}

func (b *verifReplayBroker) versionsFor(key int16) []int16 {
	b.mu.Lock()
	defer b.mu.Unlock()
	var vs []int16
	for _, s := range b.seen {
		if s[0] == key {
			vs = append(vs, s[1])
		}
	}
	return vs
}

func (b *verifReplayBroker) serve(conn net.Conn) {
	defer conn.Close()
	for {
		var size [4]byte
		if _, err := io.ReadFull(conn, size[:]); err != nil {
			return
		}
		body := make([]byte, binary.BigEndian.Uint32(size[:]))
		if _, err := io.ReadFull(conn, body); err != nil {
			return
		}
		if len(body) < 8 {
			return
		}
		key := int16(binary.BigEndian.Uint16(body[0:2]))
		version := int16(binary.BigEndian.Uint16(body[2:4]))
		corr := binary.BigEndian.Uint32(body[4:8])

		b.mu.Lock()
		b.seen = append(b.seen, [2]int16{key, version})
		b.mu.Unlock()

		var resp kmsg.Response
		flexibleHeader := false
		if key == 18 {
			r := kmsg.NewPtrApiVersionsResponse()
			r.Version = version
			for _, k := range b.keys {
				ak := kmsg.NewApiVersionsResponseApiKey()
				ak.ApiKey, ak.MinVersion, ak.MaxVersion = k[0], k[1], k[2]
				r.ApiKeys = append(r.ApiKeys, ak)
			}
			resp = r
		} else {
			req := kmsg.RequestForKey(key)
			if req == nil {
				return
			}
			req.SetVersion(version)
			flexibleHeader = req.IsFlexible()
			resp = req.ResponseKind()
		}

		out := resp.AppendTo(nil)
		buf := make([]byte, 0, 9+len(out))
		hdr := 4
		if flexibleHeader {
			hdr = 5
		}
		buf = binary.BigEndian.AppendUint32(buf, uint32(hdr+len(out)))
		buf = binary.BigEndian.AppendUint32(buf, corr)
		if flexibleHeader {
			buf = append(buf, 0) // empty response header tags
		}
		buf = append(buf, out...)
		if _, err := conn.Write(buf); err != nil {
			return
		}
	}
}

// Hand-written replay for the obligation kgo.(*broker).handleReq/site call writeRequest#0
// [not-written-when-broker-lacks-key]: the broker's ApiVersions table is loaded and lists neither
// Produce (key 0) nor the requested key (Metadata, key 3) - e.g. a KRaft controller-only listener.
// The property says: "When no such version exists, the request fails with an error and is not written."
func TestVerifReplayMissingKey(t *testing.T) {
	b := newVerifReplayBroker(t, [][3]int16{{18, 0, 4}, {1, 0, 17}}) // ApiVersions and Fetch only
	cl, err := NewClient(SeedBrokers(b.ln.Addr().String()), RequestRetries(0), DisableClientMetrics())
	if err != nil {
		t.Fatal(err)
	}
	defer cl.Close()
	ctx, cancel := context.WithTimeout(context.Background(), 5*time.Second)
	defer cancel()
	req := kmsg.NewPtrMetadataRequest()
	_, rerr := cl.loadSeeds()[0].waitResp(ctx, req)
	written := b.versionsFor(3)
	fmt.Printf("REPLAY-RESULT metadata request error: %v; metadata request headers seen by the broker (versions): %v\n", rerr, written)
	if len(written) > 0 {
		t.Fatalf("the broker does not list key 3, yet a Metadata request was written at version(s) %v (error returned to the caller: %v)", written, rerr)
	}
	if rerr == nil {
		t.Fatalf("expected an error for a request the broker cannot serve")
	}
}
