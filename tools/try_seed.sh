#!/bin/bash
# usage: tools/try_seed.sh <property> <patch.diff>  -- applies the patch to /repo, runs the quick check, reverts.
set -u
P=$1; PATCH=$2
if [ -n "$(git -C /repo status --porcelain)" ]; then echo "/repo has uncommitted changes: commit them first"; exit 2; fi
cd /repo && git apply "$PATCH" || { echo "APPLY FAILED"; exit 2; }
cd /verif && ./check $P --no-evidence > /tmp/try_seed.out 2>&1; rc=$?
cd /repo && git checkout -- . 
echo "rc=$rc $(grep -c '^VIOLATION' /tmp/try_seed.out) violations; $(tail -1 /tmp/try_seed.out)"
grep '^VIOLATION' /tmp/try_seed.out | head -3
