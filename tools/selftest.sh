#!/bin/bash
# Must-fail corpus: applies every stored seeded change to /repo, runs the quick check of its property and expects
# exit 1 with a VIOLATION line; reverts the change. Usage: tools/selftest.sh [seed-dir-glob]
# Exit 0 iff every seeded change is reported. /repo must be clean.
set -u
if [ -n "$(git -C /repo status --porcelain)" ]; then echo "/repo has uncommitted changes"; exit 2; fi
PAT=${1:-/verif/seeded/*}
missed=0; n=0
for d in $PAT; do
  [ -f $d/patch.diff ] || continue
  P=$(python3 -c "import json;print(json.load(open('$d/meta.json'))['property'])")
  n=$((n+1))
  (cd /repo && git apply $d/patch.diff) || { echo "APPLY-FAILED $d"; missed=$((missed+1)); continue; }
  (cd /verif && ./check $P --no-evidence > /tmp/selftest.out 2>&1); rc=$?
  (cd /repo && git checkout -- .)
  v=$(grep -c '^VIOLATION' /tmp/selftest.out)
  if [ $rc -eq 1 ] && [ $v -gt 0 ]; then echo "detected $(basename $d) ($P): $v violation line(s)"; else echo "MISSED   $(basename $d) ($P): rc=$rc"; missed=$((missed+1)); fi
done
echo "selftest: $n seeded changes, $missed missed"
[ $missed -eq 0 ]
