#!/bin/bash
# usage: tools/prep_seed_round.sh <PROP>
# Creates the scratch worktree /tmp/wt-<PROP> for a seeding sub-agent: a detached checkout of /repo HEAD with the
# contract files (zz_verif*) removed, the property text in _out/PROPERTY.json and the list of changes already
# stored for the property in _out/ALREADY_TRIED.txt. Nothing from /verif but the property text goes in.
P=$1; WT=/tmp/wt-$P
git -C /repo worktree add -q --detach $WT HEAD || exit 2
(cd $WT && git rm -q -r --cached $(git ls-files | grep zz_verif) && rm -f $(find . -name 'zz_verif*') && git commit -q -m scratch)
mkdir -p $WT/_out
python3 - "$P" > $WT/_out/PROPERTY.json <<'PY'
import json,sys
for l in open('/verif/properties.jsonl'):
    d=json.loads(l)
    if d['id']==sys.argv[1]: print(json.dumps(d,indent=1))
PY
: > $WT/_out/ALREADY_TRIED.txt
for d in /verif/seeded/$P-*; do [ -d $d ] && python3 -c "
import json;print('-',json.load(open('$d/meta.json'))['change'])" >> $WT/_out/ALREADY_TRIED.txt; done
echo "prepared $WT"; cat $WT/_out/ALREADY_TRIED.txt
