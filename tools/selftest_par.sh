#!/bin/bash
# Parallel must-fail corpus run without touching /repo: every stored change is applied in a scratch worktree and
# handed to the quick check as file overlays (./check --overlay /repo/<f>=<scratch>/<f>), SLOTS checks at a time.
# usage: tools/selftest_par.sh [skip-list-file]   (skip-list: lines "detected <seed> ..." of an earlier run)
# (replays run against the unpatched /repo here, so a violation is reported with no-failing-input-found; the serial
# tools/selftest.sh is the reference run)
SLOTS=${SLOTS:-4}; SKIP=${1:-/dev/null}; OUT=/tmp/selftest_par; rm -rf $OUT; mkdir -p $OUT
for s in $(seq 1 $SLOTS); do git -C /repo worktree remove --force /tmp/wt-st-$s 2>/dev/null; git -C /repo worktree add -q --detach /tmp/wt-st-$s HEAD || exit 2; done
one() {
  d=$1; slot=$2; name=$(basename $d); wt=/tmp/wt-st-$slot
  P=$(python3 -c "import json;print(json.load(open('$d/meta.json'))['property'])")
  (cd $wt && git checkout -q -- . && git apply $d/patch.diff) || { echo "APPLY-FAILED $name"; return; }
  ov=""; for f in $(cd $wt && git diff --name-only); do ov="$ov --overlay /repo/$f=$wt/$f"; done
  (cd /verif && ./check $P --no-evidence $ov > $OUT/$name.out 2>&1); rc=$?
  (cd $wt && git checkout -q -- .)
  v=$(grep -c '^VIOLATION' $OUT/$name.out)
  if [ $rc -eq 1 ] && [ $v -gt 0 ]; then echo "detected $name ($P): $v violation line(s)"; else echo "MISSED   $name ($P): rc=$rc"; fi
}
i=0
for d in /verif/seeded/*; do
  [ -f $d/patch.diff ] || continue
  grep -q "^detected $(basename $d) " $SKIP && continue
  i=$((i+1)); slot=$(( (i-1) % SLOTS + 1 ))
  echo "$d $slot"
done > $OUT/jobs.txt
for s in $(seq 1 $SLOTS); do ( grep " $s\$" $OUT/jobs.txt | while read d slot; do one $d $slot; done ) > $OUT/slot$s.log 2>&1 & done
wait
cat $OUT/slot*.log
for s in $(seq 1 $SLOTS); do git -C /repo worktree remove --force /tmp/wt-st-$s; done; git -C /repo worktree prune
