#!/bin/bash
# usage: tools/confirm_seed.sh <worktree> <patch.diff> <demo_test.go> <pkgdir-relative-to-worktree> 
# Confirms: demo passes without the patch, fails with it; package builds with the patch.
WT=$1; PATCH=$2; DEMO=$3; PKG=$4
export GOFLAGS=-mod=mod GOPROXY=off
cd $WT && git checkout -q -- . && cp $DEMO $WT/$PKG/zz_demo_test.go
T=$(grep -o 'func Test[A-Za-z0-9_]*' $DEMO | sed 's/func //' | paste -sd'|')
(cd $WT/$PKG && go test -vet=off -count=1 -timeout 300s -run "^($T)\$" . > /tmp/confirm_clean.log 2>&1); c=$?
git apply $PATCH || { echo APPLY-FAILED; exit 2; }
(cd $WT/$PKG && go build ./... > /tmp/confirm_build.log 2>&1); b=$?
(cd $WT/$PKG && go test -vet=off -count=1 -timeout 300s -run "^($T)\$" . > /tmp/confirm_patched.log 2>&1); p=$?
rm -f $WT/$PKG/zz_demo_test.go; git checkout -q -- .
echo "clean_demo_rc=$c build_rc=$b patched_demo_rc=$p tests=$T"
