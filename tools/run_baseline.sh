#!/bin/bash
# Runs the repository's pinned test suite (guard off) and compares with BASELINE.json's stable_pass list.
# Usage: tools/run_baseline.sh [outdir]   (outdir default: a temp dir outside /repo and /verif)
OUT=${1:-$(mktemp -d /tmp/verif-baseline-XXXX)}
export GOFLAGS=-mod=mod GOPROXY=off
for m in $(cat /w/out/gomods.txt); do
  MF=$(cd /repo/$m && . /w/out/goenv.sh && gomodflag)
  (cd /repo/$m && go test $MF -json -vet=off -count=1 -timeout 25m ./...)
done > $OUT/gotest.json 2>$OUT/stderr.txt
python3 - "$OUT/gotest.json" <<'PY'
import json, sys
passed=set(); failed=set()
for line in open(sys.argv[1]):
    try: e=json.loads(line)
    except Exception: continue
    if e.get("Test") and e.get("Action") in ("pass","fail"):
        k=e["Package"]+"::"+e["Test"]
        (passed if e["Action"]=="pass" else failed).add(k)
b=json.load(open("/root/.vp/BASELINE.json"))
stable=set(b["stable_pass"])
missing=sorted(stable-passed)
print("stable_pass:",len(stable),"passed now:",len(stable&passed),"missing:",len(missing))
for m in missing: print("  MISSING",m, "(failed)" if m in failed else "(not run)")
sys.exit(1 if missing else 0)
PY
