#!/bin/bash
# usage: tools/store_seed.sh <PROP> <n> <worktree> <k> "<change>" "<needs>" "<detected_by>"
# copies <worktree>/_out/{change<k>.diff,demo<k>_test.go,notes<k>.md} to /verif/seeded/<PROP>-<n>/ with meta.json
P=$1; N=$2; WT=$3; K=$4; CHANGE=$5; NEEDS=$6; DET=$7
D=/verif/seeded/$P-$N; mkdir -p $D
cp $WT/_out/change$K.diff $D/patch.diff; cp $WT/_out/demo${K}_test.go $D/demo_test.go; cp $WT/_out/notes$K.md $D/notes.md
python3 - "$P" "$CHANGE" "$NEEDS" "$DET" > $D/meta.json <<'PY'
import json,sys
print(json.dumps({"property":sys.argv[1],"change":sys.argv[2],"needs_to_manifest":sys.argv[3],"demo":"demo_test.go (in-package test)",
 "origin":"written by an independent sub-agent given only the property text and a scratch worktree",
 "confirmed":"tools/confirm_seed.sh: clean tree demo passes (rc 0), patched tree builds (rc 0) and demo fails (rc 1); sub-agent reported the existing tests unchanged",
 "detected_by":sys.argv[4]},indent=1))
PY
echo stored $D
