#!/usr/bin/env python3
"""Regenerates MANIFEST.json from props.json (claimed checks) and na.json (not-applicable reasons)."""
import json, os
V = os.path.dirname(os.path.abspath(__file__))
props = json.load(open(os.path.join(V, "props.json")))
na = json.load(open(os.path.join(V, "na.json")))
all_ids = [json.loads(l)["id"] for l in open(os.path.join(V, "properties.jsonl"))]
checks = []
for pid in all_ids:
    if pid not in props:
        continue
    c = props[pid]
    checks.append({
        "property_id": pid,
        "quick_cmd": "./check %s" % pid,
        "thorough_cmd": "./check %s --thorough" % pid,
        "evidence_file": "/verif/evidence/%s.json" % pid,
        "replay_cmd_template": "cat {path}",
        "engine": "govc",
        "level_claimed": {"category": c.get("level", "proof"), "text": c["level_text"], "design_ref": c.get("design_ref", "DESIGN.md §5")},
        "level_note": c["level_note"],
        "technique": c.get("technique", "contract-based deductive verification: weakest-precondition VCs generated from go/ssa of the real functions, contracts as //@ comments in /repo (build tag verif), discharged by z3/cvc5"),
    })
man = {
    "version": 1,
    "setup_cmd": "cd /verif/govc && GOFLAGS=-mod=vendor GOPROXY=off go build -o /verif/bin/govc .",
    "hooks": {
        "guard": "verif",
        "enable": "go build -tags verif (the hook files are comment-only contract files zz_verif_contracts.go; govc loads /repo with -tags=verif)",
        "baseline_off_cmd": "for m in $(cat /w/out/gomods.txt); do MF=$(cd /repo/$m && . /w/out/goenv.sh && gomodflag); (cd /repo/$m && go test $MF -json -vet=off -count=1 -timeout 25m ./...); done",
        "source_commits": json.load(open(os.path.join(V, "hooks.json")))["source_commits"],
        "add_only": True,
    },
    "engines": [{"name": "govc", "path": "/verif/govc", "serves_properties": [c["property_id"] for c in checks],
                 "kind_free_text": "verification-condition generator over go/ssa (x/tools v0.29.0, vendored) for a stated Go subset; contracts are //@ comments in /repo/**/zz_verif_contracts.go; obligations are SMT-LIB files discharged by z3-new, cvc5, z3; counterexamples are replayed with go test -overlay"}],
    "checks": checks,
    "not_applicable": [{"property_id": pid, "reason": na[pid]} for pid in all_ids if pid not in props],
    "notes": "See DESIGN.md. Each check regenerates its obligations from /repo's working tree on every run. known_findings.json lists genuine defects (fixed or recorded).",
}
missing = [pid for pid in all_ids if pid not in props and pid not in na]
assert not missing, missing
json.dump(man, open(os.path.join(V, "MANIFEST.json"), "w"), indent=1)
print("MANIFEST.json:", len(checks), "checks,", len(man["not_applicable"]), "not applicable")
